"""pytest plugin: run the repository's own tests with the ambient contracts installed.

usage (from /repo):  PYTHONPATH=/verif /venv/bin/python -m pytest -p vf.pytest_contracts ...
The report is written to $VERIF_CONTRACT_REPORT at session end.
"""
import os
import json


def pytest_configure(config):
    from vf import contracts
    contracts.install()


def pytest_sessionfinish(session, exitstatus):
    from vf import contracts
    path = os.environ.get('VERIF_CONTRACT_REPORT')
    if path:
        rep = contracts.report()
        rep['exitstatus'] = int(exitstatus)
        with open(path, 'w') as f:
            json.dump(rep, f)
