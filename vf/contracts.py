"""Ambient runtime contracts (icontract) on real miasmX functions.

Installed from the harness - the repository is not edited. The contracts *record and return
True* (measurement mode): a violated condition is appended to VIOLATIONS with its witness and
the observed run continues. References bound by name before decoration (from m import f) are
re-bound explicitly; evaluation counters are reported and a zero count makes the dependent
verdict inconclusive.
"""
import os
import sys

VIOLATIONS = []
COUNTERS = {'expr_simp': 0, 'expr_simp_compared': 0, 'modint_init': 0, 'dis': 0}
_installed = {'done': False}
_depth = {'n': 0}


def _deps():
    d = os.path.join(os.path.dirname(os.path.dirname(os.path.abspath(__file__))), '.deps')
    if os.path.isdir(d) and d not in sys.path:
        sys.path.append(d)


def simp_preserves_meaning(e, result):
    """Post-condition of expression_helper.expr_simp: same width, same value on 3 valuations."""
    from vf import irsem, exprgen
    COUNTERS['expr_simp'] += 1
    if _depth['n'] > 0:
        return True          # a nested call made by the simplifier itself: covered by the outermost call
    try:
        if irsem.kind(e) == 'ExprAff' or irsem.typecheck(e):
            return True
        we, wr = irsem.width(e), irsem.width(result)
        if we != wr:
            VIOLATIONS.append(('ambient/expr_simp/width', 'expr_simp(%s) = %s: width %d -> %d' % (e, result, we, wr), exprgen.canon(e)))
            return True
        for i in range(3):
            env = irsem.Env(seed=('ambient', i), segmented=True)
            try:
                a = irsem.evaluate(e, env)
                b = irsem.evaluate(result, env)
            except (irsem.Undefined, irsem.Uninterpreted):
                continue
            COUNTERS['expr_simp_compared'] += 1
            if a != b:
                VIOLATIONS.append(('ambient/expr_simp/value', 'expr_simp(%s) = %s: 0x%x vs 0x%x' % (e, result, a, b), exprgen.canon(e)))
                break
    except irsem.IllFormed as ex:
        VIOLATIONS.append(('ambient/expr_simp/ill-formed', 'expr_simp(%s) = %s: %r' % (e, result, ex), ''))
    except Exception:
        pass
    return True


def modint_in_range(self):
    COUNTERS['modint_init'] += 1
    lim = self.__class__.limit
    from miasmx.tools.modint import modint
    if isinstance(self, modint):
        ok = -lim // 2 <= self.arg < lim // 2
    else:
        ok = 0 <= self.arg < lim
    if not ok:
        VIOLATIONS.append(('ambient/modint/range', '%s holds %r' % (self.__class__.__name__, self.arg), ''))
    return True


class ContractBroken(Exception):
    pass


def install():
    if _installed['done']:
        return
    _deps()
    import icontract
    import miasmx.expression.expression_helper as eh
    import miasmx.expression.expression_eval_abstract as ea
    import miasmx.tools.emul_helper as emh
    import miasmx.tools.modint as mi
    orig = eh.expr_simp

    def expr_simp(e):
        _depth['n'] += 1
        try:
            return orig(e)
        finally:
            _depth['n'] -= 1
    checked = icontract.ensure(simp_preserves_meaning, error=ContractBroken)(expr_simp)
    eh.expr_simp = checked
    # references bound by name before decoration bypass the contract: re-bind them
    for mod in (ea, emh):
        if getattr(mod, 'expr_simp', None) is orig:
            mod.expr_simp = checked
    for name in ('uint1', 'uint8', 'uint16', 'uint32', 'uint64', 'uint128', 'int8', 'int16', 'int32', 'int64', 'int128'):
        icontract.invariant(modint_in_range, error=ContractBroken)(getattr(mi, name))
    _installed['done'] = True


def report():
    return {'counters': dict(COUNTERS), 'violations': VIOLATIONS[:200]}
