/* 64-bit ptrace driver for a 32-bit tracee: executes one instruction per case from a given
 * register/flag/memory state and reports the resulting state.
 *
 * stdin:  records  { u8 flags; u8 codelen; u8 code[16]; u32 regs[8] (eax ecx edx ebx esp ebp esi edi);
 *                    u32 eflags; u8 hot[HOT]; [if flags&1: u8 mm[8][8]; u8 xmm[8][16]] }
 *         flags&8: x87 mode - after hot[]: u8 st[8][10] (ST0..ST7, 80-bit), u8 ftw (abridged tags, physical; TOP is 0);
 *                  the reply then ends with u8 st[8][10] (stack order), u16 swd, u8 ftw
 *         flags&16: the step runs in the tracee's 16-bit code segment (LDT selector 7, base 0): status 0xfffc if the host refuses it
 *         flags&2: the hot bytes live at LOW_ADDR+HOT_OFF (reachable with 16-bit addressing) instead of DATA_ADDR+HOT_OFF
 * stdout: records  { u32 status (0 = stepped, else signal number, 0xffff = tracer failure);
 *                    u32 regs[8]; u32 eip; u32 eflags; u32 cs; u8 hot[HOT]; [if flags&1: mm, xmm] }
 */
#define _GNU_SOURCE
#include <stdio.h>
#include <stdlib.h>
#include <string.h>
#include <stdint.h>
#include <unistd.h>
#include <errno.h>
#include <signal.h>
#include <sys/ptrace.h>
#include <sys/wait.h>
#include <sys/user.h>
#include <sys/uio.h>

#define DATA_ADDR 0x20000000UL
#define HOT_OFF   0x0e00UL
#define HOT       1024
#define CODE_ADDR 0x30000000UL
#define LOW_ADDR  0x8000UL
#define TOP_HOT   0xfc00UL      /* flags&4: the hot bytes are the last 1024 bytes of the first 64K */

static pid_t child;

static int rd(void *p, size_t n) { return fread(p, 1, n, stdin) == n; }
static void wr(const void *p, size_t n) { fwrite(p, 1, n, stdout); }

static int put_mem(unsigned long addr, const void *buf, size_t n) {
    struct iovec l = { (void *)buf, n }, r = { (void *)addr, n };
    return process_vm_writev(child, &l, 1, &r, 1, 0) == (ssize_t)n;
}
static int get_mem(unsigned long addr, void *buf, size_t n) {
    struct iovec l = { buf, n }, r = { (void *)addr, n };
    return process_vm_readv(child, &l, 1, &r, 1, 0) == (ssize_t)n;
}

static int start_child(const char *path) {
    child = fork();
    if (child < 0) return 0;
    if (child == 0) {
        ptrace(PTRACE_TRACEME, 0, 0, 0);
        execl(path, path, (char *)0);
        _exit(127);
    }
    int st;
    if (waitpid(child, &st, 0) < 0 || !WIFSTOPPED(st)) return 0;   /* exec stop */
    ptrace(PTRACE_SETOPTIONS, child, 0, PTRACE_O_EXITKILL);
    if (ptrace(PTRACE_CONT, child, 0, 0) < 0) return 0;
    if (waitpid(child, &st, 0) < 0 || !WIFSTOPPED(st) || WSTOPSIG(st) != SIGTRAP) return 0;   /* int3 after the mmaps */
    return 1;
}

int main(int argc, char **argv) {
    if (argc < 2) { fprintf(stderr, "usage: tracer <child>\n"); return 2; }
    if (!start_child(argv[1])) { fprintf(stderr, "cannot start/trace the 32-bit child: %s\n", strerror(errno)); return 3; }
    struct user_regs_struct base, r;
    struct user_fpregs_struct fpbase, fp;
    if (ptrace(PTRACE_GETREGS, child, 0, &base) < 0) { perror("GETREGS"); return 3; }
    if (ptrace(PTRACE_GETFPREGS, child, 0, &fpbase) < 0) { perror("GETFPREGS"); return 3; }
    uint8_t flags, codelen, code[16], hot[HOT], mmx[64], xmm[128];
    uint32_t regs[8], eflags;
    static const uint8_t nops[16] = {0x90,0x90,0x90,0x90,0x90,0x90,0x90,0x90,0x90,0x90,0x90,0x90,0x90,0x90,0x90,0x90};
    for (;;) {
        if (!rd(&flags, 1)) break;
        if (!rd(&codelen, 1) || !rd(code, 16) || !rd(regs, 32) || !rd(&eflags, 4) || !rd(hot, HOT)) break;
        if (flags & 1) { if (!rd(mmx, 64) || !rd(xmm, 128)) break; }
        uint8_t x87[80], x87tag = 0xff;
        if (flags & 8) { if (!rd(x87, 80) || !rd(&x87tag, 1)) break; }
        uint32_t status = 0;
        uint8_t codebuf[32];
        memcpy(codebuf, code, 16); memcpy(codebuf + 16, nops, 16);
        if (codelen > 16) codelen = 16;
        memset(codebuf + codelen, 0x90, 32 - codelen);
        unsigned long hotbase = (flags & 4) ? TOP_HOT : ((flags & 2) ? LOW_ADDR : DATA_ADDR) + HOT_OFF;
        if (!put_mem(CODE_ADDR, codebuf, 32)) status = 0xffff;
        else if (!put_mem(hotbase, hot, HOT)) status = (flags & 6) ? 0xfffd : 0xffff;      /* 0xfffd: no low mapping on this host */
        r = base;
        r.rax = regs[0]; r.rcx = regs[1]; r.rdx = regs[2]; r.rbx = regs[3];
        r.rsp = regs[4]; r.rbp = regs[5]; r.rsi = regs[6]; r.rdi = regs[7];
        r.rip = CODE_ADDR;
        r.eflags = (eflags & 0x00240ed5) | 0x202;       /* CF PF AF ZF SF DF OF (and AC, ID for the pushf/popf probes) from the case; IF set; TF clear */
        r.orig_rax = -1;
        if (flags & 16) r.cs = 7;
        if (status == 0 && ptrace(PTRACE_SETREGS, child, 0, &r) < 0) status = (flags & 16) ? 0xfffc : 0xffff;
        if (status == 0 && (flags & 1)) {
            fp = fpbase;
            for (int i = 0; i < 8; i++) {
                memcpy((uint8_t *)fp.st_space + 16 * i, mmx + 8 * i, 8);
                ((uint8_t *)fp.st_space)[16 * i + 8] = 0xff; ((uint8_t *)fp.st_space)[16 * i + 9] = 0xff;
            }
            memcpy(fp.xmm_space, xmm, 128);
            fp.ftw = 0xff; fp.swd = 0;
            if (ptrace(PTRACE_SETFPREGS, child, 0, &fp) < 0) status = 0xffff;
        }
        if (status == 0 && (flags & 8)) {
            fp = fpbase;
            for (int i = 0; i < 8; i++) { memset((uint8_t *)fp.st_space + 16 * i, 0, 16); memcpy((uint8_t *)fp.st_space + 16 * i, x87 + 10 * i, 10); }
            fp.ftw = x87tag; fp.swd = 0; fp.cwd = 0x37f;
            if (ptrace(PTRACE_SETFPREGS, child, 0, &fp) < 0) status = 0xffff;
        }
        if (status == 0) {
            if (ptrace(PTRACE_SINGLESTEP, child, 0, 0) < 0) status = 0xffff;
            else {
                int st;
                if (waitpid(child, &st, 0) < 0) status = 0xffff;
                else if (WIFEXITED(st) || WIFSIGNALED(st)) { status = 0xfffe; }
                else if (WIFSTOPPED(st) && WSTOPSIG(st) != SIGTRAP) status = WSTOPSIG(st);
            }
        }
        memset(&r, 0, sizeof r);
        if (status != 0xfffe) ptrace(PTRACE_GETREGS, child, 0, &r);
        uint32_t out[12];
        out[0] = status;
        out[1] = r.rax; out[2] = r.rcx; out[3] = r.rdx; out[4] = r.rbx;
        out[5] = r.rsp; out[6] = r.rbp; out[7] = r.rsi; out[8] = r.rdi;
        out[9] = r.rip; out[10] = r.eflags; out[11] = r.cs;
        wr(out, sizeof out);
        if (status == 0xfffe || !get_mem(hotbase, hot, HOT)) memset(hot, 0, HOT);
        wr(hot, HOT);
        if (flags & 1) {
            memset(&fp, 0, sizeof fp);
            if (status != 0xfffe) ptrace(PTRACE_GETFPREGS, child, 0, &fp);
            for (int i = 0; i < 8; i++) memcpy(mmx + 8 * i, (uint8_t *)fp.st_space + 16 * i, 8);
            wr(mmx, 64);
            wr(fp.xmm_space, 128);
        }
        if (flags & 8) {
            memset(&fp, 0, sizeof fp);
            if (status != 0xfffe) ptrace(PTRACE_GETFPREGS, child, 0, &fp);
            for (int i = 0; i < 8; i++) memcpy(x87 + 10 * i, (uint8_t *)fp.st_space + 16 * i, 10);
            wr(x87, 80);
            uint16_t swd = fp.swd; uint8_t tg = (uint8_t)fp.ftw;
            wr(&swd, 2); wr(&tg, 1);
        }
        /* no per-case flush: the driver sends a whole batch and reads until EOF */
        if (status == 0xfffe) {            /* tracee died: start a new one */
            if (!start_child(argv[1])) return 3;
            ptrace(PTRACE_GETREGS, child, 0, &base);
            ptrace(PTRACE_GETFPREGS, child, 0, &fpbase);
        }
    }
    kill(child, SIGKILL);
    return 0;
}
