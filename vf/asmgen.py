"""Structured generator of assembly lines: mnemonic x operand-shape templates x boundary values.

The structure (mnemonics, shapes, boundary immediates, memory-operand classes) is enumerated
deterministically; VERIF_SEED only varies which register / memory-operand instance fills a shape.
Lines are written in Intel syntax; the AT&T spelling of the same instruction is obtained from
the reference (objdump -M att of GNU as's encoding), not from miasmX.
"""
from vf import common

R32 = ['eax', 'ecx', 'edx', 'ebx', 'esp', 'ebp', 'esi', 'edi']
R16 = ['ax', 'cx', 'dx', 'bx', 'sp', 'bp', 'si', 'di']
R8 = ['al', 'cl', 'dl', 'bl', 'ah', 'ch', 'dh', 'bh']
SREG = ['es', 'cs', 'ss', 'ds', 'fs', 'gs']
MM = ['mm%d' % i for i in range(8)]
XMM = ['xmm%d' % i for i in range(8)]
ST = ['st(%d)' % i for i in range(8)]

IMM_BOUNDARY = [-129, -128, -1, 0, 1, 127, 128, 255, 256, 32767, 32768, 65535, 65536, 2 ** 31 - 1, 2 ** 31, 2 ** 32 - 1, 2 ** 32, -2 ** 31, -2 ** 31 - 1, -32768, -32769]

MEMS = [
    '[eax]', '[ebx+4]', '[ebp]', '[esp]', '[esp+8]', '[eax+ebx]', '[eax+ebx*2]', '[ebx*4]', '[ebx*4+4096]', '[ebp+esi*8-4]',
    'ds:4660', 'fs:[eax]', 'es:[edi+4]', '[eax+127]', '[eax+128]', '[eax-128]', '[eax-129]', '[eax+2147483647]', '[ecx+edx*1]',
    '[edi+ebp*2+100]', 'gs:20', '[esi+edi*8+305419896]', 'ss:[ebp-8]', 'cs:[ebx]', '[edx+esp]',
]
SIZE_KW = {8: 'BYTE PTR', 16: 'WORD PTR', 32: 'DWORD PTR', 64: 'QWORD PTR', 80: 'TBYTE PTR', 128: 'XMMWORD PTR', 0: ''}


def mem(size, which):
    m = MEMS[which % len(MEMS)]
    kw = SIZE_KW[size]
    return ('%s %s' % (kw, m)).strip()


def vocabulary():
    from miasmx.arch import ia32_arch as A
    names = set()
    for n in A.x86mndb.mnemo_lookup:
        if '#' not in n:
            names.add(n)
    names |= set(A.mnemo_mmx_hash.keys())
    names |= set(['movhlps', 'movlhps', 'cvttpd2dq', 'pmovmskb'])
    return sorted(names)


def shapes(rng):
    """Yield (shape name, operand text, immediate class or None). Registers/memory instances vary with rng."""
    r32 = lambda: rng.choice(R32)
    r16 = lambda: rng.choice(R16)
    r8 = lambda: rng.choice(R8)
    mi = lambda: rng.randrange(len(MEMS))
    yield 'none', '', None
    yield 'r32', r32(), None
    yield 'r16', r16(), None
    yield 'r8', r8(), None
    for sz in (8, 16, 32, 64, 80, 128, 0):
        yield 'm%d' % sz, mem(sz, mi()), None
    yield 'r32,r32', '%s, %s' % (r32(), r32()), None
    yield 'r16,r16', '%s, %s' % (r16(), r16()), None
    yield 'r8,r8', '%s, %s' % (r8(), r8()), None
    yield 'r32,r16', '%s, %s' % (r32(), r16()), None
    yield 'r32,r8', '%s, %s' % (r32(), r8()), None
    yield 'r16,r8', '%s, %s' % (r16(), r8()), None
    for sz, rr in ((32, r32), (16, r16), (8, r8)):
        yield 'r%d,m%d' % (sz, sz), '%s, %s' % (rr(), mem(sz, mi())), None
        yield 'm%d,r%d' % (sz, sz), '%s, %s' % (mem(sz, mi()), rr()), None
    yield 'r32,m8', '%s, %s' % (r32(), mem(8, mi())), None
    yield 'r32,m16', '%s, %s' % (r32(), mem(16, mi())), None
    yield 'r32,m0', '%s, %s' % (r32(), mem(0, mi())), None
    yield 'r32,cl', '%s, cl' % r32(), None
    yield 'm32,cl', '%s, cl' % mem(32, mi()), None
    yield 'r32,r32,cl', '%s, %s, cl' % (r32(), r32()), None
    yield 'm32,r32,cl', '%s, %s, cl' % (mem(32, mi()), r32()), None
    yield 'sreg,r16', '%s, %s' % (rng.choice(SREG), r16()), None
    yield 'r16,sreg', '%s, %s' % (r16(), rng.choice(SREG)), None
    yield 'sreg', rng.choice(SREG), None
    yield 'cr,r32', 'cr%d, %s' % (rng.choice((0, 2, 3, 4)), r32()), None
    yield 'r32,cr', '%s, cr%d' % (r32(), rng.choice((0, 2, 3, 4))), None
    yield 'dr,r32', 'dr%d, %s' % (rng.choice((0, 1, 2, 3, 6, 7)), r32()), None
    yield 'r32,dr', '%s, dr%d' % (r32(), rng.choice((0, 1, 2, 3, 6, 7))), None
    yield 'al,dx', 'al, dx', None
    yield 'eax,dx', 'eax, dx', None
    yield 'dx,al', 'dx, al', None
    yield 'dx,eax', 'dx, eax', None
    yield 'mm,mm', '%s, %s' % (rng.choice(MM), rng.choice(MM)), None
    yield 'mm,m64', '%s, %s' % (rng.choice(MM), mem(64, mi())), None
    yield 'm64,mm', '%s, %s' % (mem(64, mi()), rng.choice(MM)), None
    yield 'xmm,xmm', '%s, %s' % (rng.choice(XMM), rng.choice(XMM)), None
    yield 'xmm,m128', '%s, %s' % (rng.choice(XMM), mem(128, mi())), None
    yield 'm128,xmm', '%s, %s' % (mem(128, mi()), rng.choice(XMM)), None
    yield 'xmm,m64', '%s, %s' % (rng.choice(XMM), mem(64, mi())), None
    yield 'xmm,m32', '%s, %s' % (rng.choice(XMM), mem(32, mi())), None
    yield 'm64,xmm', '%s, %s' % (mem(64, mi()), rng.choice(XMM)), None
    yield 'm32,xmm', '%s, %s' % (mem(32, mi()), rng.choice(XMM)), None
    yield 'xmm,r32', '%s, %s' % (rng.choice(XMM), r32()), None
    yield 'r32,xmm', '%s, %s' % (r32(), rng.choice(XMM)), None
    yield 'mm,r32', '%s, %s' % (rng.choice(MM), r32()), None
    yield 'r32,mm', '%s, %s' % (r32(), rng.choice(MM)), None
    yield 'xmm,mm', '%s, %s' % (rng.choice(XMM), rng.choice(MM)), None
    yield 'mm,xmm', '%s, %s' % (rng.choice(MM), rng.choice(XMM)), None
    yield 'xmm,xmm,i8', '%s, %s, %d' % (rng.choice(XMM), rng.choice(XMM), rng.choice((0, 1, 7, 255))), None
    yield 'xmm,m128,i8', '%s, %s, %d' % (rng.choice(XMM), mem(128, mi()), rng.choice((0, 1, 7, 255))), None
    yield 'mm,mm,i8', '%s, %s, %d' % (rng.choice(MM), rng.choice(MM), rng.choice((0, 3, 255))), None
    yield 'xmm,i8', '%s, %d' % (rng.choice(XMM), rng.choice((0, 1, 15, 255))), None
    yield 'mm,i8', '%s, %d' % (rng.choice(MM), rng.choice((0, 1, 15, 255))), None
    yield 'r32,xmm,i8', '%s, %s, %d' % (r32(), rng.choice(XMM), rng.choice((0, 1, 3))), None
    yield 'xmm,r32,i8', '%s, %s, %d' % (rng.choice(XMM), r32(), rng.choice((0, 1, 3))), None
    yield 'st,st(i)', 'st, %s' % rng.choice(ST), None
    yield 'st(i),st', '%s, st' % rng.choice(ST), None
    yield 'st(i)', rng.choice(ST), None
    yield 'ax', 'ax', None
    # immediates: the boundary list of the statement, for each destination width
    for v in IMM_BOUNDARY:
        yield 'i', '%d' % v, v
        yield 'r32,i', '%s, %d' % (r32(), v), v
        yield 'r16,i', '%s, %d' % (r16(), v), v
        yield 'r8,i', '%s, %d' % (r8(), v), v
        yield 'eax,i', 'eax, %d' % v, v
        yield 'al,i', 'al, %d' % v, v
        yield 'ax,i', 'ax, %d' % v, v
        yield 'm32,i', '%s, %d' % (mem(32, mi()), v), v
        yield 'm16,i', '%s, %d' % (mem(16, mi()), v), v
        yield 'm8,i', '%s, %d' % (mem(8, mi()), v), v
    for v in (-129, -128, -1, 0, 1, 127, 128, 255, 256, 65535, 2 ** 31 - 1, 2 ** 32 - 1):
        yield 'r32,r32,i', '%s, %s, %d' % (r32(), r32(), v), v
        yield 'r32,m32,i', '%s, %s, %d' % (r32(), mem(32, mi()), v), v
        yield 'r16,r16,i', '%s, %s, %d' % (r16(), r16(), v), v
        yield 'i,i', '%d, %d' % (v, 1), v
    yield 'sym', 'some_symbol', None
    yield 'r32,offset-sym', '%s, OFFSET FLAT:some_symbol' % r32(), None
    yield 'r32,m32sym', '%s, DWORD PTR some_symbol[%s]' % (r32(), r32()), None


MEMGRID_TEMPLATES = [('lea', 'r32,m0', 'lea %s, %s', 0), ('mov', 'r32,m32', 'mov %s, DWORD PTR %s', 32), ('add', 'm32,i', 'add DWORD PTR %s, 5', 32),
                     ('mov', 'm8,r8', 'mov BYTE PTR %s, cl', 8), ('push', 'm32', 'push DWORD PTR %s', 32), ('movzx', 'r32,m8', 'movzx %s, BYTE PTR %s', 8),
                     ('fld', 'm32', 'fld DWORD PTR %s', 32), ('movaps', 'xmm,m128', 'movaps xmm1, XMMWORD PTR %s', 128)]


def memgrid(tier):
    """Directed grid of memory operand forms: base x index (including base == index) x scale x displacement.
    Independent of any seed; appended after the vocabulary lines so that their instances do not move."""
    bases = [None] + R32
    idxs = [None] + [r for r in R32 if r != 'esp']
    disps = [None, 8, -8, 4096] if tier == 'quick' else [None, 8, -8, 4096, 127, 128, -128, -129, 2 ** 31 - 1]
    tpl = MEMGRID_TEMPLATES[:3] if tier == 'quick' else MEMGRID_TEMPLATES
    n = 0
    for mn, shape, fmt, size in tpl:
        for b in bases:
            for i in idxs:
                for s in ((1, 2, 4, 8) if i else (None,)):
                    for d in disps:
                        if b is None and i is None:
                            continue
                        t = b or ''
                        if i:
                            t += ('+' if t else '') + (i if s == 1 and b else '%s*%d' % (i, s))
                        if d is not None:
                            t += '%+d' % d
                        m = '[%s]' % t
                        line = fmt % (('edx', m) if fmt.count('%s') == 2 else (m,))
                        cls = 'same' if (b and b == i) else ('noidx' if not i else ('nobase' if not b else 'diff'))
                        if (b and i and s == 1 and 'ebp' in (b, i)) or (b is None and i == 'ebp' and s == 2):
                            cls = 'ebp-role-ambiguous'      # [ebp+r] / [r+ebp], [ebp+ebp] / [ebp*2]: the other reading has another default segment (ss vs ds)
                        yield n, line, mn, 'memgrid:%s:%s' % (shape, cls), None
                        n += 1


EXPRS = ['-8-4', '+8-4', '-8+4', '+64-8-4', '-1-1-1', '+2*4', '+2*4+1', '+1+2*4', '+(2+3)*4', '-(2+3)', '+16-(8-4)', '+0x10-0x8-0x4', '+100-10-1+5', '+3*4-2*3', '-2*3-1']


def exprgrid():
    """Constant expressions (several operators, both associativities, parentheses) in displacements and immediates."""
    n = 0
    for e in EXPRS:
        for fmt, mn, shape in (('mov eax, DWORD PTR [ebx%s]', 'mov', 'exprgrid:r32,m32'), ('lea ecx, [esi+edi*2%s]', 'lea', 'exprgrid:r32,m0'),
                               ('add esp, 64%s', 'add', 'exprgrid:r32,i'), ('mov BYTE PTR [eax%s], 1', 'mov', 'exprgrid:m8,i'), ('push 1000%s', 'push', 'exprgrid:i')):
            yield n, fmt % e, mn, shape, None
            n += 1


def spellgrid():
    """Numbers in every spelling both assemblers read alike: decimal, 0x / 0X prefix, upper- and lower-case digits, leading zeros."""
    n = 0
    for v in (0x1f, 0x7f, 0x80, 0xab, 0x1000, 0xabcdef, 0x7fffffff, 0xfffffffe):
        for sp in ('%d', '0x%x', '0X%x', '0x%X', '0X%X', '0x0%x', '0X000%X'):
            t = sp % v
            for fmt, mn, shape, lim in (('mov eax, %s', 'mov', 'spell:r32,i', 1 << 32), ('mov eax, DWORD PTR [ebx+%s]', 'mov', 'spell:r32,m32', 1 << 31), ('ret %s', 'ret', 'spell:i16', 1 << 16),
                                        ('push %s', 'push', 'spell:i', 1 << 31), ('add cl, %s', 'add', 'spell:r8,i', 1 << 8), ('mov BYTE PTR %s[esi], 1', 'mov', 'spell:m8,i', 1 << 31),
                                        ('cmp WORD PTR [edx], %s', 'cmp', 'spell:m16,i', 1 << 16)):
                if v < lim:
                    yield n, fmt % t, mn, shape, None
                    n += 1


def symgrid():
    """Symbol-relative memory operands in every spelling compilers print: N+sym[regs], -N+sym[regs], sym[regs+N], sym[regs-N],
    N[regs] and N[regs+M] (outer and inner displacement), with one and two registers."""
    n = 0
    for regs in ('ebx', 'ebx+ecx*4', 'esi'):
        for v in (4, 8, 129, 300):
            for sp in ('%d+some_symbol[%s]' % (v, regs), '-%d+some_symbol[%s]' % (v, regs), 'some_symbol[%s+%d]' % (regs, v), 'some_symbol[%s-%d]' % (regs, v),
                       '%d[%s]' % (v, regs), '-%d[%s]' % (v, regs), '%d[%s+%d]' % (v, regs, 2 * v), '-%d[%s+%d]' % (v, regs, 2 * v), '%d[%s-%d]' % (v, regs, 2 * v)):
                for fmt, mn, shape in (('mov eax, DWORD PTR %s', 'mov', 'symgrid:r32,m32'), ('lea edx, %s', 'lea', 'symgrid:r32,m0'), ('add BYTE PTR %s, 1', 'add', 'symgrid:m8,i')):
                    if (n // 3) % 3 == {'mov': 0, 'lea': 1, 'add': 2}[mn] or v == 4:
                        yield n, fmt % sp, mn, shape, None
                    n += 1


def imm_class(v, width):
    if v is None:
        return '-'
    if -128 <= v <= 127:
        return 'fits-s8'
    if 0 <= v <= 255:
        return 'fits-u8'
    if -(1 << (width - 1)) <= v < (1 << width):
        return 'fits-w%d' % width
    return 'over-w%d' % width if v > 0 else 'under-w%d' % width


# mnemonic families: which shapes make sense (keeps the cross product small without per-mnemonic knowledge:
# a shape that a mnemonic does not accept is simply rejected by both assemblers)
def lines(tier, seed, part, nparts):
    """Yield (intel line, mnemonic, shape, imm value). Deterministic structure; rng picks instances."""
    voc = vocabulary()
    for k, mn in enumerate(voc):
        if k % nparts != part:
            continue
        reps = 1 if tier == 'quick' else 10
        for rep in range(reps):
            # structure and instances are fixed (independent of VERIF_SEED): which register or memory-operand instance
            # fills a shape changes what miasmX accepts, so a seed-dependent choice would make the set of known
            # findings seed-dependent; the thorough tier enumerates more instances (a superset of quick)
            rng = common.rng_for(0, 'asmgen', mn, rep)
            for shape, ops, v in shapes(rng):
                yield ('%s %s' % (mn, ops)).strip(), mn, shape, v
    for n, line, mn, shape, v in memgrid(tier):
        if n % nparts == part:
            yield line, mn, shape, v
    for n, line, mn, shape, v in symgrid():
        if n % nparts == part:
            yield line, mn, shape, v
    for n, line, mn, shape, v in exprgrid():
        if n % nparts == part:
            yield line, mn, shape, v
    for n, line, mn, shape, v in spellgrid():
        if n % nparts == part:
            yield line, mn, shape, v
