"""Deterministic enumeration of the x86 byte-string space (opcode x ModRM x SIB x prefix x filler).

Structure (which opcode cells, ModRM values, SIB classes, prefix sets, filler classes are visited)
never depends on VERIF_SEED; only the random filler bytes do.
"""
from vf import common

# opcode maps: 0 = one byte, 1 = 0F xx, 2 = 0F 38 xx, 3 = 0F 3A xx
MAPS = {0: b'', 1: b'\x0f', 2: b'\x0f\x38', 3: b'\x0f\x3a'}
PREFIX_BYTES = set([0x26, 0x2e, 0x36, 0x3e, 0x64, 0x65, 0x66, 0x67, 0xf0, 0xf2, 0xf3])

FILLERS = [
    bytes([0x00] * 12),
    bytes([0x7f] * 12),
    bytes([0x80] * 12),
    bytes([0xff] * 12),
    bytes([0x00, 0x00, 0x00, 0x80] * 3),
    bytes([0x01, 0x02, 0x03, 0x04, 0x05, 0x06, 0x07, 0x08, 0x09, 0x0a, 0x0b, 0x0c]),
    bytes([0xff, 0xff, 0xff, 0x7f] * 3),
    bytes([0x80, 0x00, 0x00, 0x00] * 3),
]

SIB_QUICK = [0x00, 0x24, 0x65, 0xbf, 0x5d, 0xe4, 0x25, 0x0c]      # scale/index/base classes incl. index=none, base=ebp/esp
SIB_ALL64 = [(s << 6) | (i << 3) | b for s in range(4) for i in (0, 4, 5, 7) for b in (0, 4, 5, 7)]


def cells(maps=(0, 1, 2, 3)):
    out = []
    for m in maps:
        for op in range(256):
            if m == 0 and (op in PREFIX_BYTES or op == 0x0f):
                continue
            if m == 1 and op in (0x38, 0x3a):
                continue
            out.append((m, op))
    return out


def cell_bytes(cell):
    return MAPS[cell[0]] + bytes([cell[1]])


def modrm_has_sib(modrm):
    return (modrm & 7) == 4 and (modrm >> 6) != 3


def strings_for_cell(cell, tier, seed, prefixes=(b'',), modrms=None, sibs=None, nfill=None):
    """Yield (bytes, cls) for one opcode cell. cls = (cell, prefix, mod, rm-class, sib-class, filler-class)."""
    rng = common.rng_for(seed, 'x86space', cell)
    base = cell_bytes(cell)
    if modrms is None:
        modrms = range(256)
    if nfill is None:
        nfill = 1 if tier == 'quick' else 3
    for modrm in modrms:
        if modrm_has_sib(modrm):
            sl = sibs if sibs is not None else (SIB_QUICK[:4] if tier == 'quick' else SIB_ALL64)
        else:
            sl = [None]
        for si, sib in enumerate(sl):
            for fi in range(nfill + 1):
                if fi < nfill:
                    fidx = (cell[1] + modrm + (sib or 0) + fi * 3) % len(FILLERS)
                    fill = FILLERS[fidx]
                    fcls = 'f%d' % fidx
                else:
                    fill = bytes(rng.getrandbits(8) for _ in range(12))
                    fcls = 'frand'
                tail = bytes([modrm]) + (bytes([sib]) if sib is not None else b'') + fill
                for p in prefixes:
                    b = (p + base + tail)[:16]
                    yield b, (cell, p.hex(), modrm >> 6, modrm & 7, sib, fcls)


def count_grid(tier):
    """Shift / rotate / double-shift / bit-test forms with an immediate count: every one of the 256 immediate values (counts are
    masked, reduced modulo the operand size, and special-cased at 0, 1 and multiples of the size), register and memory forms,
    without prefix and under 66."""
    for p in (b'', b'\x66'):
        for opc, regs in ((b'\xc0', range(8)), (b'\xc1', range(8)), (b'\x0f\xa4', (3,)), (b'\x0f\xac', (3,)), (b'\x0f\xba', (4, 5, 6, 7)),
                          (b'\x0f\x71', (2, 4, 6)), (b'\x0f\x72', (2, 4, 6)), (b'\x0f\x73', (2, 3, 6, 7)), (b'\x6b', (1,)), (b'\xd4', (None,)), (b'\xd5', (None,))):
            for reg in regs:
                for modrm in ((0xc0, 0x00) if reg is not None else (None,)):
                    for imm in range(256):
                        if reg is None:
                            b = p + opc + bytes([imm])
                            yield b + b'\x90' * 4, ((9, opc[-1]), p.hex(), 3, 0, None, 'count%02x' % imm)
                        else:
                            m = modrm | (reg << 3) | 1
                            b = p + opc + bytes([m, imm])
                            yield b + b'\x90' * 4, ((9, opc[-1]), p.hex(), m >> 6, m & 7, None, 'count%02x' % imm)


SEG_PREFIXES = [b'\x26', b'\x2e', b'\x36', b'\x3e', b'\x64', b'\x65']
STD_PREFIXES = [b'', b'\x66']
ALL_SINGLE = [b'', b'\x66', b'\x67', b'\xf2', b'\xf3', b'\xf0'] + SEG_PREFIXES
PAIRS = [b'\x66\x67', b'\x67\x66', b'\x66\xf2', b'\x66\xf3', b'\xf2\x66', b'\xf3\x66', b'\x2e\x66', b'\x66\x2e',
         b'\x67\x2e', b'\x64\x67', b'\xf0\x66', b'\xf3\x67', b'\xf2\x67', b'\x65\xf0', b'\xf2\xf3', b'\xf3\xf2', b'\x66\x66', b'\x2e\x36']


def truncations(b):
    return [b[:i] for i in range(1, len(b))]


# ---------------------------------------------------------------- directed grids (independent of any seed)

SIB_CELLS = [(0, 0x8d), (0, 0x8b), (0, 0x89), (0, 0x01), (0, 0x88), (0, 0xff), (0, 0xc7), (1, 0xb6), (0, 0xd9), (1, 0x10), (1, 0x6f)]
DISP_VALUES = [0x0, 0x7f, 0x80, 0xff, 0x100, 0x7fff, 0x8000, 0x8001, 0xfff0, 0xffff, 0x10000, 0x12345678, 0x7fffffff, 0x80000000, 0xffff8000, 0xfffffff0, 0xffffffff]


def sib_grid(tier):
    """All 256 SIB bytes (every base x index x scale, including base == index and the ebp/esp special cases) under mod 0/1/2
    for a handful of opcode cells that share the ModRM/SIB decoder. Yields (bytes, cls)."""
    cells_ = SIB_CELLS[:5] if tier == 'quick' else SIB_CELLS
    for cell in cells_:
        base = cell_bytes(cell)
        for mod, disp in ((0, b''), (1, b'\x08'), (2, b'\x00\x10\x00\x00'), (1, b'\xf8')):
            for reg in ((0,) if tier == 'quick' else (0, 3)):
                for sib in range(256):
                    d = disp
                    if mod == 0 and (sib & 7) == 5:
                        d = b'\x44\x33\x22\x11'
                    # segment overrides in front of every SIB form: the default segment depends on the BASE register only
                    # (ss for ebp/esp), so an override is redundant or meaningful depending on the roles
                    for p in ((b'', b'\x36', b'\x3e') if tier == 'quick' else (b'', b'\x66', b'\x36', b'\x3e', b'\x26')):
                        tail = bytes([(mod << 6) | (reg << 3) | 4, sib]) + d + b'\x11\x22\x33\x44\x55'
                        yield (p + base + tail)[:16], (cell, p.hex(), mod, 4, sib, 'sibgrid')


def disp_grid(tier):
    """Absolute / moffs / disp32 / disp8 memory operands with boundary displacement values, sizes 8/16/32 (prefix 66)."""
    import struct
    heads = [b'\xa0', b'\xa1', b'\xa2', b'\xa3', b'\x8b\x05', b'\x89\x05', b'\x8a\x0d', b'\xff\x35', b'\x0f\xb7\x05', b'\xdf\x05', b'\x8b\x83', b'\x89\x8d']
    if tier != 'quick':
        heads += [b'\x01\x05', b'\xc7\x05', b'\x8d\x05', b'\x0f\xb6\x15', b'\xd9\x05', b'\xdd\x1d', b'\xfe\x05', b'\x8b\x04\x25', b'\x8b\x04\x8d']
    for h in heads:
        for v in DISP_VALUES:
            for p in (b'', b'\x66', b'\x64'):
                b = p + h + struct.pack('<I', v) + b'\x11\x22\x33\x44\x55'
                yield b[:16], ((9, h[0]), p.hex(), 0, 5, None, 'dispgrid')
    # a SIB byte without base register (mod 00, base 101b: disp32 follows) for every scale and three index registers, with
    # displacements that would also fit a byte: the disp32 form is the only encoding of [index*scale+disp]
    for op in (b'\x8b', b'\x89', b'\x8d', b'\x00'):
        for scale in range(4):
            for index in (0, 1, 6):
                sib = (scale << 6) | (index << 3) | 5
                for v in (8, 0x7f, 0x80, 0xfffffff8, 0xffffff80, 0x100, 1):
                    b = op + bytes([0x0c, sib]) + struct.pack('<I', v) + b'\x11\x22\x33\x44\x55'
                    yield b[:16], ((9, op[0]), '', 0, 4, sib, 'nobase-sib')
