"""Helpers shared by the checks that compare miasmX with the binutils/LLVM references on bytes."""
import re
from vf import gnuref

BRANCH_RE = re.compile(r'T(16)?([+-]\d+)$')
FARPTR_RE = re.compile(r'(0x[0-9a-f]+):(0x[0-9a-f]+)$')


def norm_ref_text(t):
    """Canonical form of an objdump Intel text: drop encoding-only markers."""
    def _abs(m):
        seg = m.group(1) or 'ds:'
        v = int(m.group(3), 16) if m.group(3) else 0
        if m.group(2) == '-':
            v = -v
        return '%s0x%x' % (seg, v & 0xffffffff)
    t = re.sub(r'\s+', ' ', t).strip()
    # SIB without base and without index: an absolute address
    t = re.sub(r'([c-gs]s:)?\[eiz\*[1248](?:([+-])(0x[0-9a-f]+))?\]', _abs, t)
    t = re.sub(r'\+eiz\*[1248]', '', t)
    t = re.sub(r'\*1(?=[+\-\]])', '', t)            # [ebx*1+d] and [ebx+d] address the same byte
    t = re.sub(r'[+-]0x0\]', ']', t)
    t = re.sub(r'\bst\(0\)', 'st', t)              # st(0) is st
    if t in ('int3', 'int 0x3'):
        t = 'int 0x3'
    # shift/rotate by one: the imm8 form with count 1 and the implicit-one form are the same instruction
    if re.match(r'^(rol|ror|rcl|rcr|shl|shr|sal|sar) ', t):
        t = re.sub(r',0x1$', ',1', t)
    # xchg is symmetric; xchg eax,eax is nop
    m = re.match(r'^xchg ([a-z]+),([a-z]+)$', t)
    if m:
        a, b_ = sorted(m.groups())
        t = 'nop' if (a == b_ and a in ('eax', 'ax')) else 'xchg %s,%s' % (a, b_)
    # moves to/from segment registers ignore the operand size of the general register
    m = re.match(r'^mov ([c-gs]s),e?([a-ds][xpi])$', t)
    if m:
        t = 'mov %s,%s' % (m.group(1), m.group(2))
    # moffs forms (a0..a3) are printed without a size keyword, the ModRM forms with one: same instruction
    if re.match(r'^mov (al|ax|eax),', t) or re.search(r'^mov .*,(al|ax|eax)$', t):
        t = re.sub(r'\b(BYTE|WORD|DWORD) PTR ([c-gs]s:0x)', r'\2', t)
    t = re.sub(r'\s+', ' ', t).strip()
    return t


def sort_unscaled_pair(t, ebp_too=False):
    """[r1+r2+d] with two unscaled registers, none of them ebp/esp: base and index roles are interchangeable.
    For lea the default segment plays no role, so ebp is interchangeable too (ebp_too forces that reading)."""
    lea = t.startswith('lea ') or ebp_too

    def f(m):
        a, b_, rest = m.group(1), m.group(2), m.group(3) or ''
        if 'esp' in (a, b_) or ('ebp' in (a, b_) and not lea):
            return m.group(0)
        x, y = sorted((a, b_))
        return '[%s+%s%s]' % (x, y, rest)
    t = re.sub(r'\[(e[a-ds][xipd])\+(e[a-ds][xipd])([+-]0x[0-9a-f]+)?\]', f, t)
    # [r+r] and [r*2] are the same address with the same default segment unless r is ebp (ss vs ds)
    return re.sub(r'\[(e[a-ds][xi]%s)\+\1([+-]0x[0-9a-f]+)?\]' % ('|ebp' if lea else ''), lambda m: '[%s*2%s]' % (m.group(1), m.group(2) or ''), t)


def drop_default_ds(t):
    """Remove a segment override that names the operand's default segment (ds, or ss for ebp/esp/bp bases):
    such a prefix is meaning-free and an assembler does not emit it."""
    def f(m):
        seg, inner = m.group(1), m.group(2)
        # the default segment follows the BASE register (the first term when it carries no scale; bp in the 16-bit forms)
        first = re.split(r'[+-]', inner)[0]
        stack = first in ('ebp', 'esp') or re.search(r'\bbp\b', inner) is not None
        if (seg == 'ss') == stack:
            return '[' + inner + ']'
        return m.group(0)
    return re.sub(r'\b(ds|ss):\[([^\]]*)\]', f, t)


def ref_mnemonic(t):
    toks = t.split()
    for p in toks:
        if p in ('lock', 'rep', 'repz', 'repnz', 'repe', 'repne', 'notrack', 'bnd', 'data16', 'addr16', 'cs', 'ds', 'es', 'ss', 'fs', 'gs', 'xacquire', 'xrelease'):
            continue
        return p
    return toks[0] if toks else '?'


def operand_sig(t):
    """Operand-kind signature of an objdump Intel text: r m i seg st mm xmm cr dr far."""
    toks = t.split(None, 1)
    mn = ref_mnemonic(t)
    idx = t.find(mn)
    rest = t[idx + len(mn):].strip()
    if not rest:
        return '-'
    sig = []
    for op in rest.split(','):
        op = op.strip()
        if '[' in op or re.match(r'^(BYTE|WORD|DWORD|QWORD|TBYTE|XMMWORD|FWORD|OWORD) PTR', op) or re.search(r'\b[de]s:0x', op) or re.search(r'^[c-gs]s:', op):
            m = re.match(r'^(BYTE|WORD|DWORD|QWORD|TBYTE|XMMWORD|FWORD|OWORD)', op)
            sig.append('m' + ({'BYTE': '8', 'WORD': '16', 'DWORD': '32', 'QWORD': '64', 'TBYTE': '80', 'XMMWORD': '128', 'FWORD': '48', 'OWORD': '128'}.get(m.group(1), '') if m else ''))
        elif re.match(r'^T[+-]', op):
            sig.append('rel')
        elif FARPTR_RE.search(op):
            sig.append('far')
        elif re.match(r'^-?(0x)?[0-9a-f]+$', op):
            sig.append('i')
        elif re.match(r'^st(\(\d\))?$', op):
            sig.append('st')
        elif re.match(r'^xmm\d$', op):
            sig.append('xmm')
        elif re.match(r'^mm\d$', op):
            sig.append('mm')
        elif re.match(r'^[cdt]r\d$', op):
            sig.append(op[:2])
        elif op in ('cs', 'ds', 'es', 'ss', 'fs', 'gs'):
            sig.append('seg')
        elif op in ('al', 'cl', 'dl', 'bl', 'ah', 'ch', 'dh', 'bh'):
            sig.append('r8')
        elif op in ('ax', 'cx', 'dx', 'bx', 'sp', 'bp', 'si', 'di'):
            sig.append('r16')
        elif op in ('eax', 'ecx', 'edx', 'ebx', 'esp', 'ebp', 'esi', 'edi'):
            sig.append('r32')
        else:
            sig.append('?')
    return ','.join(sig)


def prefix_class(b):
    ps = []
    for c in b:
        if c in (0x26, 0x2e, 0x36, 0x3e, 0x64, 0x65):
            ps.append('seg')
        elif c in (0x66, 0x67, 0xf0, 0xf2, 0xf3):
            ps.append('%02x' % c)
        else:
            break
    return '+'.join(sorted(set(ps))) or 'none'


def seg_detail(pc, b):
    """prefix class in which an override naming ds or ss is told apart from the others: whether such an override is redundant or
    meaningful depends on the base register, which is what assemblers and printers get wrong."""
    if 'seg' not in pc:
        return pc
    for c in b:
        if c in (0x36, 0x3e):
            return pc.replace('seg', 'seg-%s' % ('ss' if c == 0x36 else 'ds'))
        if c not in (0x26, 0x2e, 0x64, 0x65, 0x66, 0x67, 0xf0, 0xf2, 0xf3):
            break
    return pc


def is_rel_branch(ref_text):
    return BRANCH_RE.search(ref_text) is not None


def rel_disp(ref_text, length, force16=False):
    """(displacement, width) of a relative branch in normalised objdump text."""
    m = BRANCH_RE.search(ref_text)
    if m.group(1) or force16:
        return (int(m.group(2)) - length) & 0xffff, 16
    return int(m.group(2)) - length, 32


def parse_int(tok):
    tok = tok.strip()
    try:
        return int(tok, 0)
    except ValueError:
        return None


def intel_for_gas(text):
    """miasmX Intel rendering -> line GNU as reads with the same meaning: absolute numeric memory
    operands get an explicit ds: (miasmX's own parser reads 'DWORD PTR 123' as memory)."""
    m = re.match(r'^push\s+WORD PTR (-?\d+)\s*$', text)
    if m:
        return 'pushw %s' % m.group(1)          # miasmX's spelling of push imm16
    t = re.sub(r'\b(PTR)\s+(-?\d+)\b', r'\1 ds:\2', text)
    t = re.sub(r'\[((?:BYTE|WORD|DWORD|QWORD|TBYTE) PTR) ds:(-?\d+)\]', r'\1 ds:\2', t)
    return t.strip()


def att_for_gas(text):
    return text.strip()
