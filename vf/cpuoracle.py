"""Python side of the native CPU oracle (64-bit ptrace tracer driving a 32-bit tracee)."""
import os
import struct
import subprocess
from vf import common

DATA_ADDR = 0x20000000
HOT_OFF = 0x0e00
HOT = 1024
HOT_ADDR = DATA_ADDR + HOT_OFF
CODE_ADDR = 0x30000000
LOW_ADDR = 0x8000
TOP_HOT_ADDR = 0xfc00                      # low='top': the hot bytes end at 0xffff, so 16-bit pointers can step across the wrap
LOW_HOT_ADDR = LOW_ADDR + HOT_OFF          # the same 1024 hot bytes placed where 16-bit addressing reaches them (cases with low=True)
REGS = ['eax', 'ecx', 'edx', 'ebx', 'esp', 'ebp', 'esi', 'edi']
ARITH_FLAGS = ('cf', 'pf', 'af', 'zf', 'nf', 'df', 'of')
FLAG_BITS = {'cf': 0, 'pf': 2, 'af': 4, 'zf': 6, 'nf': 7, 'df': 10, 'of': 11, 'ac': 18, 'i_d': 21}      # ac / i_d are only ever set by the pushf probes of C08


def paths():
    return os.path.join(common.BUILD, 'tracer'), os.path.join(common.BUILD, 'child')


def build():
    t, c = paths()
    src = os.path.join(common.VERIF, 'vf', 'native')
    os.makedirs(common.BUILD, exist_ok=True)
    if not os.path.exists(t) or os.path.getmtime(t) < os.path.getmtime(os.path.join(src, 'tracer.c')):
        subprocess.run(['gcc', '-O2', '-Wall', '-o', t, os.path.join(src, 'tracer.c')], check=True, stdout=subprocess.PIPE, stderr=subprocess.PIPE)
    if not os.path.exists(c) or os.path.getmtime(c) < os.path.getmtime(os.path.join(src, 'child.S')):
        subprocess.run(['gcc', '-m32', '-nostdlib', '-static', '-o', c, os.path.join(src, 'child.S')], check=True, stdout=subprocess.PIPE, stderr=subprocess.PIPE)


def available():
    """Returns None if the oracle works here, else a reason string."""
    try:
        build()
        r = run_cases([dict(code=b'\x01\xd8', regs=[1, 2, 3, 4, HOT_ADDR + 512, 6, 7, 8], eflags=0, hot=bytes(HOT))])
        if r[0]['status'] != 0 or r[0]['regs'][0] != 5 or r[0]['eip'] != CODE_ADDR + 2:
            return 'oracle self-test failed: %r' % (r[0],)
        return None
    except Exception as e:
        return 'native CPU oracle unavailable: %r' % (e,)


def pack_eflags(flags):
    v = 0
    for k, b in FLAG_BITS.items():
        if flags.get(k):
            v |= 1 << b
    return v


def unpack_eflags(v):
    return dict((k, (v >> b) & 1) for k, b in FLAG_BITS.items())


def run_cases(cases):
    t, c = paths()
    buf = bytearray()
    for cs in cases:
        fp = cs.get('fp')
        code = cs['code']
        x87 = cs.get('x87')
        buf += bytes([(16 if cs.get('cs16') else 0) | (8 if x87 else 0) | (1 if fp else 0) | (4 if cs.get('low') == 'top' else (2 if cs.get('low') else 0)), len(code)]) + code.ljust(16, b'\x90')[:16]
        buf += struct.pack('<8I', *[x & 0xffffffff for x in cs['regs']])
        buf += struct.pack('<I', cs['eflags'])
        buf += cs['hot']
        if fp:
            buf += fp[0] + fp[1]
        if x87:
            buf += x87[0] + bytes([x87[1]])
    p = subprocess.run([t, c], input=bytes(buf), stdout=subprocess.PIPE, stderr=subprocess.PIPE)
    if p.returncode != 0:
        raise RuntimeError('tracer failed: rc=%d %s' % (p.returncode, p.stderr.decode(errors='replace')[:300]))
    out = p.stdout
    res = []
    pos = 0
    for cs in cases:
        st, = struct.unpack_from('<I', out, pos)
        vals = struct.unpack_from('<11I', out, pos + 4)
        pos += 48
        hot = out[pos:pos + HOT]
        pos += HOT
        r = {'status': st, 'regs': list(vals[:8]), 'eip': vals[8], 'eflags': vals[9], 'cs': vals[10], 'hot': hot}
        if cs.get('fp'):
            r['mm'] = out[pos:pos + 64]
            r['xmm'] = out[pos + 64:pos + 192]
            pos += 192
        if cs.get('x87'):
            r['st'] = out[pos:pos + 80]
            r['swd'], = struct.unpack_from('<H', out, pos + 80)
            r['ftw'] = out[pos + 82]
            pos += 83
        res.append(r)
    return res


def f80(x):
    """80-bit extended encoding (little-endian 10 bytes) of a finite Python float."""
    import math
    if x == 0:
        return bytes(10)
    sign = 0x8000 if x < 0 else 0
    m, e = math.frexp(abs(x))            # abs(x) = m * 2**e, 0.5 <= m < 1
    mant = int(m * (1 << 64))            # explicit integer bit set
    return struct.pack('<QH', mant & 0xffffffffffffffff, sign | (e - 1 + 16383))


def from_f80(b):
    mant, se = struct.unpack('<QH', b)
    e = se & 0x7fff
    if e == 0 and mant == 0:
        return 0.0
    if e == 0x7fff:
        return float('nan') if mant << 1 & 0xffffffffffffffff else (float('-inf') if se & 0x8000 else float('inf'))
    v = mant / float(1 << 63) * 2.0 ** (e - 16383)
    return -v if se & 0x8000 else v
