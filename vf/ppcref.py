"""Architectural table of the 32-bit PowerPC (UISA/VEA/OEA, 603-class) opcode space.

Each row: (mnemonic, primary opcode, extended-opcode width in bits (0 = none), extended opcode,
llvm-mc sample or None). The table is *validated at run time* against llvm-mc
(-triple=powerpc -mcpu=603 / ppc64 for the 64-bit subset): every row with a sample is assembled
and the primary/extended opcode fields of the encoding are compared. A contradicted row makes
the check inconclusive (exit 2); rows llvm-mc does not know are used as written and listed
under the assumptions.
"""
import re
import subprocess

D3 = '{m} 3, 4, 16'
LS = '{m} 3, 8(4)'
X3 = '{m} 3, 4, 5'
X2 = '{m} 3, 4'
F4 = '{m} 1, 2, 3, 4'
F3 = '{m} 1, 2, 3'
F2 = '{m} 1, 2'
CR3 = '{m} 0, 1, 2'

ROWS = [
    # primary-only (D, I, B, SC, M forms)
    ('twi', 3, 0, 0, 'twi 4, 3, 1'), ('mulli', 7, 0, 0, D3), ('subfic', 8, 0, 0, D3), ('cmpli', 10, 0, 0, 'cmplwi 0, 3, 1'),
    ('cmpi', 11, 0, 0, 'cmpwi 0, 3, 1'), ('addic', 12, 0, 0, D3), ('addic.', 13, 0, 0, D3), ('addi', 14, 0, 0, D3), ('addis', 15, 0, 0, D3),
    ('bc', 16, 0, 0, 'bc 12, 2, 16'), ('sc', 17, 0, 0, 'sc'), ('b', 18, 0, 0, 'b 16'),
    ('rlwimi', 20, 0, 0, '{m} 3, 4, 5, 6, 7'), ('rlwinm', 21, 0, 0, '{m} 3, 4, 5, 6, 7'), ('rlwnm', 23, 0, 0, '{m} 3, 4, 5, 6, 7'),
    ('ori', 24, 0, 0, D3), ('oris', 25, 0, 0, D3), ('xori', 26, 0, 0, D3), ('xoris', 27, 0, 0, D3), ('andi.', 28, 0, 0, D3), ('andis.', 29, 0, 0, D3),
    ('lwz', 32, 0, 0, LS), ('lwzu', 33, 0, 0, LS), ('lbz', 34, 0, 0, LS), ('lbzu', 35, 0, 0, LS), ('stw', 36, 0, 0, LS), ('stwu', 37, 0, 0, LS),
    ('stb', 38, 0, 0, LS), ('stbu', 39, 0, 0, LS), ('lhz', 40, 0, 0, LS), ('lhzu', 41, 0, 0, LS), ('lha', 42, 0, 0, LS), ('lhau', 43, 0, 0, LS),
    ('sth', 44, 0, 0, LS), ('sthu', 45, 0, 0, LS), ('lmw', 46, 0, 0, LS), ('stmw', 47, 0, 0, LS), ('lfs', 48, 0, 0, '{m} 1, 8(4)'), ('lfsu', 49, 0, 0, '{m} 1, 8(4)'),
    ('lfd', 50, 0, 0, '{m} 1, 8(4)'), ('lfdu', 51, 0, 0, '{m} 1, 8(4)'), ('stfs', 52, 0, 0, '{m} 1, 8(4)'), ('stfsu', 53, 0, 0, '{m} 1, 8(4)'),
    ('stfd', 54, 0, 0, '{m} 1, 8(4)'), ('stfdu', 55, 0, 0, '{m} 1, 8(4)'),
    # primary 19, XL form
    ('mcrf', 19, 10, 0, 'mcrf 0, 1'), ('bclr', 19, 10, 16, 'bclr 20, 0'), ('crnor', 19, 10, 33, CR3), ('rfi', 19, 10, 50, 'rfi'), ('crandc', 19, 10, 129, CR3),
    ('isync', 19, 10, 150, 'isync'), ('crxor', 19, 10, 193, CR3), ('crnand', 19, 10, 225, CR3), ('crand', 19, 10, 257, CR3), ('creqv', 19, 10, 289, CR3),
    ('crorc', 19, 10, 417, CR3), ('cror', 19, 10, 449, CR3), ('bcctr', 19, 10, 528, 'bcctr 20, 0'),
    # primary 31, X form (10-bit extended opcode)
    ('cmp', 31, 10, 0, 'cmpw 0, 3, 4'), ('tw', 31, 10, 4, 'tw 4, 3, 4'), ('mfcr', 31, 10, 19, 'mfcr 3'), ('lwarx', 31, 10, 20, X3), ('lwzx', 31, 10, 23, X3),
    ('slw', 31, 10, 24, X3), ('cntlzw', 31, 10, 26, X2), ('and', 31, 10, 28, X3), ('cmpl', 31, 10, 32, 'cmplw 0, 3, 4'), ('dcbst', 31, 10, 54, X2),
    ('lwzux', 31, 10, 55, X3), ('andc', 31, 10, 60, X3), ('mfmsr', 31, 10, 83, 'mfmsr 3'), ('dcbf', 31, 10, 86, X2), ('lbzx', 31, 10, 87, X3),
    ('lbzux', 31, 10, 119, X3), ('nor', 31, 10, 124, X3), ('mtcrf', 31, 10, 144, 'mtcrf 255, 3'), ('mtmsr', 31, 10, 146, 'mtmsr 3'),
    ('stwcx.', 31, 10, 150, X3), ('stwx', 31, 10, 151, X3), ('stwux', 31, 10, 183, X3), ('mtsr', 31, 10, 210, 'mtsr 1, 3'), ('stbx', 31, 10, 215, X3),
    ('mtsrin', 31, 10, 242, 'mtsrin 3, 4'), ('dcbtst', 31, 10, 246, X2), ('stbux', 31, 10, 247, X3), ('dcbt', 31, 10, 278, X2), ('lhzx', 31, 10, 279, X3),
    ('eqv', 31, 10, 284, X3), ('tlbie', 31, 10, 306, 'tlbie 3'), ('eciwx', 31, 10, 310, X3), ('lhzux', 31, 10, 311, X3), ('xor', 31, 10, 316, X3),
    ('mfspr', 31, 10, 339, 'mfspr 3, 8'), ('lhax', 31, 10, 343, X3), ('tlbia', 31, 10, 370, 'tlbia'), ('mftb', 31, 10, 371, None),
    ('lhaux', 31, 10, 375, X3), ('sthx', 31, 10, 407, X3), ('orc', 31, 10, 412, X3), ('ecowx', 31, 10, 438, X3), ('sthux', 31, 10, 439, X3),
    ('or', 31, 10, 444, X3), ('mtspr', 31, 10, 467, 'mtspr 8, 3'), ('dcbi', 31, 10, 470, X2), ('nand', 31, 10, 476, X3), ('mcrxr', 31, 10, 512, 'mcrxr 0'),
    ('lswx', 31, 10, 533, X3), ('lwbrx', 31, 10, 534, X3), ('lfsx', 31, 10, 535, F3), ('srw', 31, 10, 536, X3), ('tlbsync', 31, 10, 566, 'tlbsync'),
    ('lfsux', 31, 10, 567, F3), ('mfsr', 31, 10, 595, 'mfsr 3, 1'), ('lswi', 31, 10, 597, 'lswi 3, 4, 8'), ('sync', 31, 10, 598, 'sync'),
    ('lfdx', 31, 10, 599, F3), ('lfdux', 31, 10, 631, F3), ('mfsrin', 31, 10, 659, 'mfsrin 3, 4'), ('stswx', 31, 10, 661, X3), ('stwbrx', 31, 10, 662, X3),
    ('stfsx', 31, 10, 663, F3), ('stfsux', 31, 10, 695, F3), ('stswi', 31, 10, 725, 'stswi 3, 4, 8'), ('stfdx', 31, 10, 727, F3), ('stfdux', 31, 10, 759, F3),
    ('lhbrx', 31, 10, 790, X3), ('sraw', 31, 10, 792, X3), ('srawi', 31, 10, 824, X3), ('eieio', 31, 10, 854, 'eieio'), ('sthbrx', 31, 10, 918, X3),
    ('extsh', 31, 10, 922, X2), ('extsb', 31, 10, 954, X2), ('icbi', 31, 10, 982, X2), ('stfiwx', 31, 10, 983, F3), ('dcbz', 31, 10, 1014, X2),
    ('extsw', 31, 10, 986, X2),      # 64-bit subset; the library knows it
    # primary 31, XO form (9-bit extended opcode, bit 21 = OE)
    ('subfc', 31, 9, 8, X3), ('addc', 31, 9, 10, X3), ('mulhwu', 31, 9, 11, X3), ('subf', 31, 9, 40, X3), ('mulhw', 31, 9, 75, X3), ('neg', 31, 9, 104, X2),
    ('subfe', 31, 9, 136, X3), ('adde', 31, 9, 138, X3), ('subfze', 31, 9, 200, X2), ('addze', 31, 9, 202, X2), ('subfme', 31, 9, 232, X2),
    ('addme', 31, 9, 234, X2), ('mullw', 31, 9, 235, X3), ('add', 31, 9, 266, X3), ('divwu', 31, 9, 459, X3), ('divw', 31, 9, 491, X3),
    # primary 59, A form (5-bit)
    ('fdivs', 59, 5, 18, F3), ('fsubs', 59, 5, 20, F3), ('fadds', 59, 5, 21, F3), ('fsqrts', 59, 5, 22, F2), ('fres', 59, 5, 24, F2), ('fmuls', 59, 5, 25, F3),
    ('fmsubs', 59, 5, 28, F4), ('fmadds', 59, 5, 29, F4), ('fnmsubs', 59, 5, 30, F4), ('fnmadds', 59, 5, 31, F4),
    # primary 63, X form (10-bit)
    ('fcmpu', 63, 10, 0, 'fcmpu 0, 1, 2'), ('frsp', 63, 10, 12, F2), ('fctiw', 63, 10, 14, F2), ('fctiwz', 63, 10, 15, F2), ('fcmpo', 63, 10, 32, 'fcmpo 0, 1, 2'),
    ('mtfsb1', 63, 10, 38, 'mtfsb1 4'), ('fneg', 63, 10, 40, F2), ('mcrfs', 63, 10, 64, 'mcrfs 0, 1'), ('mtfsb0', 63, 10, 70, 'mtfsb0 4'), ('fmr', 63, 10, 72, F2),
    ('mtfsfi', 63, 10, 134, 'mtfsfi 0, 1'), ('fnabs', 63, 10, 136, F2), ('fabs', 63, 10, 264, F2), ('mffs', 63, 10, 583, 'mffs 1'), ('mtfsf', 63, 10, 711, 'mtfsf 255, 1'),
    # primary 63, A form (5-bit)
    ('fdiv', 63, 5, 18, F3), ('fsub', 63, 5, 20, F3), ('fadd', 63, 5, 21, F3), ('fsqrt', 63, 5, 22, F2), ('fsel', 63, 5, 23, F4), ('fmul', 63, 5, 25, F3),
    ('frsqrte', 63, 5, 26, F2), ('fmsub', 63, 5, 28, F4), ('fmadd', 63, 5, 29, F4), ('fnmsub', 63, 5, 30, F4), ('fnmadd', 63, 5, 31, F4),
]


def lookup_tables():
    prim = {}
    ext = {}
    for m, p, w, e, _ in ROWS:
        if w == 0:
            prim[p] = m
        else:
            ext[(p, w, e)] = m
    return prim, ext


def arch_mnemonic(word, tables=None):
    """Base mnemonic the architecture assigns to the word's primary/extended opcode, or None."""
    prim, ext = tables or lookup_tables()
    p = word >> 26
    if p in prim:
        return prim[p]
    e10 = (word >> 1) & 0x3ff
    e9 = (word >> 1) & 0x1ff
    e5 = (word >> 1) & 0x1f
    if (p, 10, e10) in ext:
        return ext[(p, 10, e10)]
    if (p, 9, e9) in ext:
        return ext[(p, 9, e9)]
    if (p, 5, e5) in ext:
        return ext[(p, 5, e5)]
    return None


def validate_with_llvm():
    """Returns (validated, unknown_to_llvm, contradicted) lists of mnemonics."""
    ok, unknown, bad = [], [], []
    src = []
    for m, p, w, e, sample in ROWS:
        src.append((m, p, w, e, (sample or '').format(m=m)))
    for m, p, w, e, line in src:
        if not line:
            unknown.append(m)
            continue
        r = subprocess.run(['llvm-mc', '-triple=powerpc-unknown-linux', '-mcpu=603', '-show-encoding'], input=line.encode() + b'\n',
                           stdout=subprocess.PIPE, stderr=subprocess.PIPE)
        mm = re.search(r'encoding: \[(0x[0-9a-f]{2}),(0x[0-9a-f]{2}),(0x[0-9a-f]{2}),(0x[0-9a-f]{2})\]', r.stdout.decode())
        if not mm:
            unknown.append(m)
            continue
        word = int(''.join(x[2:] for x in mm.groups()), 16)
        gp = word >> 26
        ge = {0: 0, 10: (word >> 1) & 0x3ff, 9: (word >> 1) & 0x1ff, 5: (word >> 1) & 0x1f}[w]
        if gp != p or ge != e:
            bad.append('%s: table (%d,%d) llvm-mc (%d,%d)' % (m, p, e, gp, ge))
        else:
            ok.append(m)
    return ok, unknown, bad
