"""Child side of the interpreter-flag differential: assemble the lines given on stdin (JSON: {"syntax":..., "lines":[...]}) with the
real miasmX assembler and print, per line, the candidate list (hex) or the exception class. Run as `python -O vf/optchild.py`."""
import sys, json


def main():
    req = json.load(sys.stdin)
    from miasmx.arch.ia32_arch import x86mnemo
    f = x86mnemo.asm if req['syntax'] == 'intel' else x86mnemo.asm_att
    out = []
    for line in req['lines']:
        try:
            c = f(line)
            out.append(None if c is None else [bytes(b).hex() for b in c])
        except Exception as e:
            out.append('raises:' + type(e).__name__)
    json.dump({'optimize': sys.flags.optimize, 'results': out}, sys.stdout)


if __name__ == '__main__':
    main()
