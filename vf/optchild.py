"""Child side of the interpreter-flag differential: assemble the lines given on stdin (JSON: {"syntax":..., "lines":[...]}) with the
real miasmX assembler and print, per line, the candidate list (hex) or the exception class. Run as `python -O vf/optchild.py`."""
import sys, json


def ppc_outcome(P, w):
    """(class name, bin(), str(), asm(str())) of one PowerPC word, exceptions as strings - the same function is run by the normal
    interpreter (C18) and by the child started with -O."""
    import io, contextlib, struct
    try:
        m = P.ppc_mn(w)
    except Exception as e:
        return ['decode-raises:' + type(e).__name__]
    if m is None:
        return [None]
    out = [m.__class__.__name__]
    try:
        out.append(m.bin())
    except Exception as e:
        out.append('bin-raises:' + type(e).__name__)
    try:
        txt = str(m)
        out.append(txt)
    except Exception as e:
        out.append('str-raises:' + type(e).__name__)
        return out
    try:
        with contextlib.redirect_stdout(io.StringIO()):
            r = P.ppc_mn.asm(txt)
        out.append([struct.unpack('>L', x)[0] for x in r])
    except Exception as e:
        out.append('asm-raises:' + type(e).__name__)
    return out


def main():
    req = json.load(sys.stdin)
    if req.get('ppc_words') is not None:
        from miasmx.arch import ppc_arch as P
        json.dump({'optimize': sys.flags.optimize, 'results': [ppc_outcome(P, w) for w in req['ppc_words']]}, sys.stdout)
        return
    from miasmx.arch.ia32_arch import x86mnemo
    f = x86mnemo.asm if req['syntax'] == 'intel' else x86mnemo.asm_att
    out = []
    for line in req['lines']:
        try:
            c = f(line)
            out.append(None if c is None else [bytes(b).hex() for b in c])
        except Exception as e:
            out.append('raises:' + type(e).__name__)
    json.dump({'optimize': sys.flags.optimize, 'results': out}, sys.stdout)


if __name__ == '__main__':
    main()
