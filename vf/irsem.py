"""Independent concrete interpreter of the miasmX expression IR.

Written from the meaning of the operators (SMT-LIB bit-vector semantics, IA-32 SDM for
the x86 specific operators).  It shares no code with expression_helper /
expression_eval_abstract: it only reads node attributes
(op/args/arg/size/start/stop/cond/src1/src2/dst/src/segm/name) and dispatches on the
*class name*, so it works on whatever miasmx.expression module is imported from /repo.
"""
import hashlib


class Undefined(Exception):
    """Architecturally undefined result (division by zero, bsf(0)...): case not compared."""


class Uninterpreted(Exception):
    """Operator without a bit-vector meaning (x87, MMX, cpuid, segment access...)."""


class IllFormed(Exception):
    """The tree is not well-formed IR (bad slice bounds, overlapping compose slots...)."""


def mask(n):
    return (1 << n) - 1


def sext(v, n):
    v &= mask(n)
    return v - (1 << n) if v >> (n - 1) else v


def kind(e):
    return e.__class__.__name__


AC_OPS = ('+', '*', '^', '&', '|')
UNINTERPRETED_PREFIXES = ('f', 'mem_', 'int_', 'double_', 'MMX', 'cpuid', 'access_segment',
                          'load_', 'sin', 'cos', 'random', 'concat', 'comparison', 'objbyid')
KNOWN_OPS = set(AC_OPS) | set(['-', '<<', '>>', 'a>>', '<<<', '>>>', '==', 'parity', '!',
                                 '<<<c_rez', '<<<c_cf', '>>>c_rez', '>>>c_cf', 'bsf', 'bsr',
                                 'umul08', 'imul08'])
for _n in (8, 16, 32):
    for _p in ('div', 'rem', 'idiv', 'irem'):
        KNOWN_OPS.add('%s%d' % (_p, _n))
for _n in (16, 32):
    for _p in ('umul', 'imul'):
        KNOWN_OPS.add('%s%d_lo' % (_p, _n))
        KNOWN_OPS.add('%s%d_hi' % (_p, _n))


def is_interpreted_op(op):
    return op in KNOWN_OPS


def width(e):
    """Bit width of an expression, computed structurally (independent of get_size())."""
    k = kind(e)
    if k == 'ExprInt':
        return e.arg.size
    if k == 'ExprId':
        return e.size
    if k == 'ExprMem':
        return e.size
    if k == 'ExprSlice':
        return e.stop - e.start
    if k == 'ExprCompose':
        if not e.args:
            raise IllFormed('empty compose')
        return max(a[2] for a in e.args)
    if k == 'ExprCond':
        return width(e.src1)
    if k == 'ExprAff':
        return width(e.dst)
    if k == 'ExprOp':
        if not e.args:
            raise IllFormed('operator without operands')
        op = e.op
        if op in ('umul08', 'imul08'):
            return 16
        if op[:3] in ('div', 'rem') and op[3:].isdigit():
            return int(op[3:])
        if op[:4] in ('idiv', 'irem') and op[4:].isdigit():
            return int(op[4:])
        return width(e.args[0])
    raise IllFormed('unknown node kind %s' % k)


EQUAL_WIDTH_OPS = ('+', '-', '*', '&', '|', '^', '==')
SHIFT_OPS = ('<<', '>>', 'a>>', '<<<', '>>>')


def typecheck(e, path='', out=None):
    """Typing rules of the IR (statement of C11). Returns a list of (rule, path, detail)."""
    if out is None:
        out = []
    k = kind(e)
    try:
        if k in ('ExprInt', 'ExprId'):
            w = width(e)
            if not isinstance(w, int) or w <= 0:
                out.append(('width-undetermined', path, '%s has width %r' % (k, w)))
        elif k == 'ExprMem':
            if not isinstance(e.size, int) or e.size <= 0 or e.size % 8:
                out.append(('mem-size', path, 'memory cell of %r bits' % (e.size,)))
            typecheck(e.arg, path + '/addr', out)
        elif k == 'ExprSlice':
            typecheck(e.arg, path + '/slice', out)
            w = width(e.arg)
            if not (isinstance(e.start, int) and isinstance(e.stop, int)) or not (0 <= e.start < e.stop <= w):
                out.append(('slice-outside-operand', path, '[%s:%s] of a %d-bit operand' % (e.start, e.stop, w)))
        elif k == 'ExprCompose':
            pos = 0
            for a, s, t in sorted(e.args, key=lambda a: (a[1], a[2])):
                typecheck(a, path + '/compose', out)
                if s != pos or t <= s:
                    out.append(('compose-slots-do-not-tile', path, 'slots %r' % ([(x[1], x[2]) for x in e.args],)))
                    break
                pos = t
                wa = width(a)
                if wa < t - s:
                    out.append(('compose-operand-narrower-than-slot', path, '%d-bit operand in slot [%d:%d]' % (wa, s, t)))
        elif k == 'ExprCond':
            typecheck(e.cond, path + '/cond', out)
            typecheck(e.src1, path + '/arm', out)
            typecheck(e.src2, path + '/arm', out)
            if width(e.src1) != width(e.src2):
                out.append(('cond-arms-differ', path, 'arms of %d and %d bits' % (width(e.src1), width(e.src2))))
        elif k == 'ExprOp':
            for a in e.args:
                typecheck(a, path + '/op' + e.op, out)
            if not e.args:
                out.append(('operator-without-operands', path, e.op))
            elif e.op in EQUAL_WIDTH_OPS:
                ws = [width(a) for a in e.args]
                if len(set(ws)) > 1:
                    out.append(('operand-widths-differ', path, '%s over widths %r' % (e.op, ws)))
                if e.op == '-' and len(e.args) > 2 or e.op == '==' and len(e.args) != 2:
                    out.append(('arity', path, '%s with %d operands' % (e.op, len(e.args))))
            elif e.op in SHIFT_OPS:
                if len(e.args) != 2:
                    out.append(('arity', path, '%s with %d operands' % (e.op, len(e.args))))
                elif width(e.args[1]) > width(e.args[0]):
                    out.append(('shift-count-wider', path, '%s count of %d bits on %d bits' % (e.op, width(e.args[1]), width(e.args[0]))))
        elif k == 'ExprAff':
            out.append(('assignment-as-value', path, 'ExprAff nested in an expression'))
        else:
            out.append(('unknown-node', path, k))
    except IllFormed as ex:
        out.append(('width-undetermined', path, repr(ex)))
    except Exception as ex:
        out.append(('width-undetermined', path, repr(ex)))
    return out


class Env(object):
    """Valuation: identifiers by name, flat little-endian byte memory (total functions)."""

    def __init__(self, seed=0, ids=None, mem=None, segmented=False):
        self.seed = seed
        self.ids = dict(ids or {})
        self.mem = dict(mem or {})      # address -> byte (explicit stores / overrides)
        self.addr_bits = 32
        self.reads = None               # optional log of (addr, nbytes)
        # segmented: a cell qualified by a segment selector lives in the address space named by the selector's value
        # (memory is a function of (selector, address)); off = flat model, the selector is ignored (CPU-oracle checks)
        self.segmented = segmented
        self.split_reg_sym = False      # if set, a register and a symbol of the same name get different default values (C05's twins)
        self.memseed = None             # if set, the default content of flat memory depends on this instead of the seed (shared backing memory)

    def copy(self):
        e = Env(self.seed, self.ids, self.mem, self.segmented)
        e.addr_bits = self.addr_bits
        e.memseed = self.memseed
        e.split_reg_sym = self.split_reg_sym
        return e

    def _h(self, *k):
        return int.from_bytes(hashlib.blake2b(repr((self.seed,) + k).encode(), digest_size=16).digest(), 'big')

    def id_value(self, name, size, is_reg=False):
        # an identifier is (name, width, register-or-symbol): a register and an assembler symbol of one name are two identifiers
        # (the library's own equality distinguishes them); explicit values are given by name and serve both unless 'reg:<name>' is set
        if is_reg and ('reg:' + name) in self.ids:
            return self.ids['reg:' + name] & mask(size)
        if name in self.ids:
            return self.ids[name] & mask(size)
        return (self._h('id', name, 'reg') if (is_reg and self.split_reg_sym) else self._h('id', name)) & mask(size)

    def byte(self, addr, space=None):
        addr &= mask(self.addr_bits)
        if space is not None:
            k = (space, addr)
            if k in self.mem:
                return self.mem[k]
            return self._h('ms', space, addr) & 0xff
        if addr in self.mem:
            return self.mem[addr]
        if self.memseed is not None:
            return int.from_bytes(hashlib.blake2b(repr((self.memseed, 'm', addr)).encode(), digest_size=16).digest(), 'big') & 0xff
        return self._h('m', addr) & 0xff

    def load(self, addr, nbytes, space=None):
        if self.reads is not None:
            self.reads.append((addr & mask(self.addr_bits), nbytes))
        v = 0
        for i in range(nbytes):
            v |= self.byte(addr + i, space) << (8 * i)
        return v

    def store(self, addr, nbytes, value):
        for i in range(nbytes):
            self.mem[(addr + i) & mask(self.addr_bits)] = (value >> (8 * i)) & 0xff


def check_shape(e):
    """Raise IllFormed if a node violates basic structural sanity (used before evaluation)."""
    k = kind(e)
    if k == 'ExprSlice':
        w = width(e.arg)
        if not (isinstance(e.start, int) and isinstance(e.stop, int)):
            raise IllFormed('slice bounds not int: %r %r' % (e.start, e.stop))
        if not (0 <= e.start < e.stop <= w):
            raise IllFormed('slice [%s:%s] outside operand of width %d' % (e.start, e.stop, w))
    elif k == 'ExprCompose':
        slots = sorted((a[1], a[2]) for a in e.args)
        pos = 0
        for (s, t), a in zip(slots, sorted(e.args, key=lambda a: (a[1], a[2]))):
            if not (isinstance(s, int) and isinstance(t, int)):
                raise IllFormed('compose slot bounds not int')
            if s != pos or t <= s:
                raise IllFormed('compose slots do not tile: %r' % (slots,))
            pos = t
    elif k == 'ExprMem':
        if e.size <= 0 or e.size % 8:
            raise IllFormed('memory cell of %r bits' % (e.size,))


def evaluate(e, env, strict=True):
    """Value of e (an unsigned int below 2**width(e))."""
    k = kind(e)
    if k == 'ExprInt':
        return int(e.arg) & mask(e.arg.size)
    if k == 'ExprId':
        return env.id_value(e.name, e.size, bool(getattr(e, 'is_reg', False)))
    if k == 'ExprMem':
        check_shape(e)
        a = evaluate(e.arg, env, strict)
        if env.segmented and e.segm is not None:
            space = evaluate(e.segm, env, strict) if hasattr(e.segm, 'visit') else repr(e.segm)
            return env.load(a, e.size // 8, ('seg', space))
        return env.load(a, e.size // 8)
    if k == 'ExprSlice':
        check_shape(e)
        v = evaluate(e.arg, env, strict)
        return (v >> e.start) & mask(e.stop - e.start)
    if k == 'ExprCompose':
        check_shape(e)
        v = 0
        for a, s, t in e.args:
            if strict and width(a) < t - s:
                # narrower operand in a wider slot: zero extension is the only reading
                pass
            v |= (evaluate(a, env, strict) & mask(t - s)) << s
        return v
    if k == 'ExprCond':
        c = evaluate(e.cond, env, strict)
        # both arms are evaluated lazily: the value only depends on the selected arm
        return evaluate(e.src1 if c else e.src2, env, strict) & mask(width(e))
    if k == 'ExprOp':
        return eval_op(e, env, strict)
    if k == 'ExprAff':
        raise IllFormed('assignment used as a value')
    raise IllFormed('unknown node kind %s' % k)


def eval_op(e, env, strict):
    op = e.op
    if not is_interpreted_op(op):
        raise Uninterpreted(op)
    n = width(e.args[0])
    m = mask(n)
    vals = [evaluate(a, env, strict) for a in e.args]
    ws = [width(a) for a in e.args]
    if op in AC_OPS:
        if len(vals) < 1:
            raise IllFormed('n-ary op without operands')
        r = vals[0]
        for v in vals[1:]:
            if op == '+':
                r = r + v
            elif op == '*':
                r = r * v
            elif op == '^':
                r = r ^ v
            elif op == '&':
                r = r & v
            else:
                r = r | v
        return r & m
    if op == '-':
        if len(vals) == 1:
            return (-vals[0]) & m
        if len(vals) == 2:
            return (vals[0] - vals[1]) & m
        raise IllFormed('- with %d operands' % len(vals))
    if op in ('<<', '>>', 'a>>'):
        if len(vals) != 2:
            raise IllFormed('%s with %d operands' % (op, len(vals)))
        a, c = vals
        if op == '<<':
            return (a << c) & m if c < n else 0
        if op == '>>':
            return (a >> c) if c < n else 0
        s = sext(a, n)
        return (s >> min(c, n)) & m
    if op in ('<<<', '>>>'):
        if len(vals) != 2:
            raise IllFormed('%s with %d operands' % (op, len(vals)))
        a, c = vals
        c %= n
        if op == '>>>':
            c = (n - c) % n
        return ((a << c) | (a >> (n - c))) & m if c else a
    if op == '==':
        if len(vals) != 2:
            raise IllFormed('== with %d operands' % len(vals))
        return 1 if vals[0] == vals[1] else 0
    if op == 'parity':
        return 1 if bin(vals[0] & 0xff).count('1') % 2 == 0 else 0
    if op == '!':
        return (~vals[0]) & m
    if op in ('<<<c_rez', '<<<c_cf', '>>>c_rez', '>>>c_cf'):
        if len(vals) != 3:
            raise IllFormed('%s with %d operands' % (op, len(vals)))
        a, c, cf = vals
        cf &= 1
        c = (c & 0x1f) % (n + 1)
        big = (cf << n) | a              # (n+1)-bit quantity CF:a
        N = n + 1
        if op.startswith('>>>'):
            c = (N - c) % N
        big = ((big << c) | (big >> (N - c))) & mask(N) if c else big
        return (big & m) if op.endswith('rez') else (big >> n) & 1
    if op in ('bsf', 'bsr'):
        v = vals[-1]                     # unary in the lifter; (default, src) in older code
        srcw = ws[-1]
        v &= mask(srcw)
        if v == 0:
            raise Undefined('%s of zero' % op)
        if op == 'bsf':
            return (v & -v).bit_length() - 1
        return v.bit_length() - 1
    if op in ('umul08', 'imul08'):
        a, b = vals[0] & 0xff, vals[1] & 0xff
        if op == 'imul08':
            a, b = sext(a, 8), sext(b, 8)
        return (a * b) & 0xffff
    if op[:4] in ('umul', 'imul') and op[-3:] in ('_lo', '_hi'):
        sz = int(op[4:6])
        a, b = vals[0] & mask(sz), vals[1] & mask(sz)
        if op[0] == 'i':
            a, b = sext(a, sz), sext(b, sz)
        p = a * b
        return (p & mask(sz)) if op.endswith('_lo') else ((p >> sz) & mask(sz))
    for pfx in ('idiv', 'irem', 'div', 'rem'):
        if op.startswith(pfx) and op[len(pfx):].isdigit():
            sz = int(op[len(pfx):])
            if len(vals) != 3:
                raise IllFormed('%s with %d operands' % (op, len(vals)))
            hi, lo, d = vals[0] & mask(sz), vals[1] & mask(sz), vals[2] & mask(sz)
            big = (hi << sz) | lo
            if d == 0:
                raise Undefined('division by zero')
            if pfx in ('div', 'rem'):
                q, r = divmod(big, d)
                if q > mask(sz):
                    raise Undefined('quotient overflow')
            else:
                sb, sd = sext(big, 2 * sz), sext(d, sz)
                q = abs(sb) // abs(sd)
                if (sb < 0) != (sd < 0):
                    q = -q
                r = sb - q * sd
                if not (-(1 << (sz - 1)) <= q < (1 << (sz - 1))):
                    raise Undefined('quotient overflow')
            return (q if pfx in ('div', 'idiv') else r) & mask(sz)
    raise Uninterpreted(op)


def free_names(e, acc=None):
    """Identifiers (name,size) occurring anywhere in e, including inside addresses and segments."""
    if acc is None:
        acc = set()
    k = kind(e)
    if k == 'ExprId':
        acc.add((e.name, e.size))
    elif k == 'ExprMem':
        free_names(e.arg, acc)
    elif k == 'ExprSlice':
        free_names(e.arg, acc)
    elif k == 'ExprCompose':
        for a in e.args:
            free_names(a[0], acc)
    elif k == 'ExprCond':
        free_names(e.cond, acc); free_names(e.src1, acc); free_names(e.src2, acc)
    elif k == 'ExprOp':
        for a in e.args:
            free_names(a, acc)
    elif k == 'ExprAff':
        free_names(e.dst, acc); free_names(e.src, acc)
    return acc


def exec_assignments(affs, env):
    """Parallel assignment: all sources and destination addresses read the pre-state.

    Returns (new_env, writes) where writes is a list of ('id', name, size, value) /
    ('mem', addr, nbytes, value) in list order."""
    pend = []
    for a in affs:
        if kind(a) != 'ExprAff':
            raise IllFormed('element is not an assignment: %s' % kind(a))
        d = a.dst
        v = evaluate(a.src, env)
        if kind(d) == 'ExprId':
            pend.append(('id', d.name, d.size, v & mask(d.size)))
        elif kind(d) == 'ExprMem':
            ad = evaluate(d.arg, env)
            pend.append(('mem', ad & mask(env.addr_bits), d.size // 8, v & mask(d.size)))
        else:
            raise IllFormed('destination is %s' % kind(d))
    new = env.copy()
    for w in pend:
        if w[0] == 'id':
            new.ids[w[1]] = w[3]
        else:
            new.store(w[1], w[2], w[3])
    return new, pend


def selftest():
    """Hand-computed vectors; returns list of failures (empty = ok)."""
    fails = []

    def _mk(name, kw):
        o = type(name, (object,), {})()
        for k, v in kw.items():
            setattr(o, k, v)
        return o

    class _Arg(int):
        pass

    def Int(v, n):
        a = _Arg(v & mask(n)); a.size = n
        return _mk('ExprInt', dict(arg=a))

    def Op(op, *args):
        return _mk('ExprOp', dict(op=op, args=args))

    def Id(nm, n=32):
        return _mk('ExprId', dict(name=nm, size=n))

    env = Env(1, {'x': 0x80000001, 'c': 1})
    vec = [
        (Op('+', Int(0xffffffff, 32), Int(2, 32)), 1),
        (Op('+', Int(1, 8), Int(2, 8), Int(0xfe, 8)), 1),
        (Op('^', Int(1, 32), Int(2, 32), Int(4, 32)), 7),
        (Op('-', Int(1, 8)), 0xff),
        (Op('-', Int(1, 8), Int(2, 8)), 0xff),
        (Op('<<', Int(1, 32), Int(4, 32)), 16),
        (Op('>>', Int(8, 32), Int(1, 32)), 4),
        (Op('>>', Int(8, 32), Int(32, 32)), 0),
        (Op('a>>', Int(0x80, 8), Int(1, 8)), 0xc0),
        (Op('a>>', Int(0x80, 8), Int(9, 8)), 0xff),
        (Op('<<<', Int(0x81, 8), Int(1, 8)), 0x03),
        (Op('>>>', Int(0x81, 8), Int(1, 8)), 0xc0),
        (Op('<<<', Int(0x81, 8), Int(8, 8)), 0x81),
        (Op('==', Int(3, 32), Int(3, 32)), 1),
        (Op('parity', Int(3, 32)), 1),
        (Op('parity', Int(7, 32)), 0),
        (Op('parity', Int(0x100, 32)), 1),
        (Op('<<<c_rez', Int(0x80, 8), Int(1, 8), Int(0, 1)), 0x00),
        (Op('<<<c_cf', Int(0x80, 8), Int(1, 8), Int(0, 1)), 1),
        (Op('>>>c_rez', Int(0x01, 8), Int(1, 8), Int(1, 1)), 0x80),
        (Op('>>>c_cf', Int(0x01, 8), Int(1, 8), Int(1, 1)), 1),
        (Op('<<<c_rez', Int(0x55, 8), Int(9, 8), Int(1, 1)), 0x55),
        (Op('bsf', Int(8, 32)), 3),
        (Op('bsr', Int(9, 32)), 3),
        (Op('umul08', Int(0x1ff, 32), Int(2, 8)), 0x1fe),
        (Op('imul08', Int(0xff, 32), Int(2, 8)), 0xfffe),
        (Op('umul32_hi', Int(0xffffffff, 32), Int(0xffffffff, 32)), 0xfffffffe),
        (Op('imul32_hi', Int(0xffffffff, 32), Int(0xffffffff, 32)), 0),
        (Op('imul16_lo', Int(0xffff, 16), Int(3, 16)), 0xfffd),
        (Op('div8', Int(1, 8), Int(0, 8), Int(2, 8)), 0x80),
        (Op('rem8', Int(1, 8), Int(1, 8), Int(2, 8)), 1),
        (Op('idiv8', Int(0xff, 8), Int(0xf9, 8), Int(2, 8)), 0xfd),   # -7/2 = -3
        (Op('irem8', Int(0xff, 8), Int(0xf9, 8), Int(2, 8)), 0xff),   # -7%2 = -1
        (_mk('ExprSlice', dict(arg=Id('x'), start=31, stop=32)), 1),
        (_mk('ExprCompose', dict(args=[(Int(0xab, 8), 0, 8), (Int(0xcd, 8), 8, 16)])), 0xcdab),
        (_mk('ExprCond', dict(cond=Id('c'), src1=Int(5, 8), src2=Int(6, 8))), 5),
    ]
    for e, want in vec:
        try:
            got = evaluate(e, env)
        except Exception as ex:
            got = repr(ex)
        if got != want:
            fails.append((getattr(e, 'op', kind(e)), got, want))
    # memory little endian
    env.store(0x1000, 4, 0x11223344)
    m = _mk('ExprMem', dict(arg=Int(0x1001, 32), size=16, segm=None))
    if evaluate(m, env) != 0x2233:
        fails.append(('mem', evaluate(m, env), 0x2233))
    return fails


if __name__ == '__main__':
    f = selftest()
    print('irsem selftest:', 'ok' if not f else f)
    raise SystemExit(1 if f else 0)
