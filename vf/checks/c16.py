"""C16 - expression read sets and pattern matching are semantically exact.

Dependency probing with the independent interpreter (perturb one identifier / one memory
cell, watch the value) against get_r(); destination naming of get_w(); MatchExpr against an
independent structural matcher and substitution.
"""
from vf import common, irsem, exprgen
from vf.checks.c15 import ref_subst, all_nodes_ids, parse_canon

PROPERTY = 'C16'
RULE = ('(A) random well-typed trees (generator of C05, depth<=4): every identifier and every memory cell occurring in the '
        'tree is perturbed on 4 base valuations x 3 new values; a witnessed dependency must be in get_r(mem_read=True) '
        '(identifiers outside addresses also in get_r(False)); get_w() of generated assignments must name the destination. '
        '(B) (pattern, wildcards, binding) triples: the instance is built by reference substitution, MatchExpr must return '
        'bindings that reproduce it; every single-node mutation of the instance (operator, arity, constant, slice bound, '
        'size, segment, compose slot, inconsistent repeated wildcard) that the reference matcher rejects must be rejected. '
        'A case = (probe kind, canonical tree, probed location / mutation); non-trivial = a dependency was witnessed, or '
        'MatchExpr was evaluated on an instance / rejected-by-reference non-instance.')
RULE += " Round 6: instances in which one occurrence of a repeated wildcard faces the wildcard's own identifier (expressions may mention it), in both orders."
RULE += ' Round 7: every read-set probe repeated on a copy whose memory cells and other compound nodes carry is_term, as the cells returned by the evaluator do.'
RULE += ' Round 8: assignments to a part of a 16-, 32-, 64- or 128-bit register or memory cell built through the ExprAff constructor: the result is well-formed and its read set contains the location.'
RULE += ' Round 10: the read sets with and without memory are asked in either order (alternating by tree) and once more afterwards; the answers may not depend on what was asked before on the same object.'
ASSUMPTIONS = ['irsem is the meaning of the IR', 'identifiers used only as segment selectors are not probed (flat memory)']


def id_positions(e, inside_mem=False, acc=None):
    """(name,size) -> set of {'plain','addr'} positions; segment selectors are skipped."""
    if acc is None:
        acc = {}
    k = e.__class__.__name__
    if k == 'ExprId':
        acc.setdefault((e.name, e.size), set()).add('addr' if inside_mem else 'plain')
    elif k == 'ExprMem':
        id_positions(e.arg, True, acc)
    elif k == 'ExprSlice':
        id_positions(e.arg, inside_mem, acc)
    elif k == 'ExprCompose':
        for a in e.args:
            id_positions(a[0], inside_mem, acc)
    elif k == 'ExprCond':
        for f in (e.cond, e.src1, e.src2):
            id_positions(f, inside_mem, acc)
    elif k == 'ExprOp':
        for a in e.args:
            id_positions(a, inside_mem, acc)
    elif k == 'ExprAff':
        id_positions(e.src, inside_mem, acc)
    return acc


def holder_kind(e, name):
    """Kind/field of the innermost node that directly holds identifier `name` (for the key)."""
    for nd in all_nodes_ids(e).values():
        k = nd.__class__.__name__
        kids = []
        if k == 'ExprMem':
            kids = [('arg', nd.arg)]
        elif k == 'ExprSlice':
            kids = [('arg', nd.arg)]
        elif k == 'ExprCompose':
            kids = [('slot', a[0]) for a in nd.args]
        elif k == 'ExprCond':
            kids = [('cond', nd.cond), ('src1', nd.src1), ('src2', nd.src2)]
        elif k == 'ExprOp':
            kids = [('arg', a) for a in nd.args]
        elif k == 'ExprAff':
            kids = [('src', nd.src), ('dst', nd.dst)]
        for f, c in kids:
            if c.__class__.__name__ == 'ExprId' and c.name == name:
                return '%s.%s' % (k, f)
    return '?'


def mem_holder_kind(e, m):
    for nd in all_nodes_ids(e).values():
        k = nd.__class__.__name__
        kids = []
        if k == 'ExprMem':
            kids = [('arg', nd.arg)]
        elif k == 'ExprSlice':
            kids = [('arg', nd.arg)]
        elif k == 'ExprCompose':
            kids = [('slot', a[0]) for a in nd.args]
        elif k == 'ExprCond':
            kids = [('cond', nd.cond), ('src1', nd.src1), ('src2', nd.src2)]
        elif k == 'ExprOp':
            kids = [('arg', a) for a in nd.args]
        elif k == 'ExprAff':
            kids = [('src', nd.src)]
        for f, c in kids:
            if c is m:
                return '%s.%s' % (k, f)
    return 'top'


def probe_reads(sh, e, seedtag, flagged=True):
    if flagged:
        # the same tree with its identifiers created as terminal symbols (is_term=True, like the init_* symbols of the x86
        # machine): an attribute that equality ignores must not change what a term reads
        try:
            from vf.checks.c15 import ref_subst
            ex, mi = exprgen.M()
            d = {}
            for t in exprgen.subterms(e):
                if t.__class__.__name__ == 'ExprId':
                    d[exprgen.canon(t)] = ex.ExprId(t.name, t.size, is_term=True, is_reg=t.is_reg)
            if d:
                probe_reads(sh, ref_subst(e, d), (seedtag, 'term'), flagged=False)
            # and with its memory cells (and other compound nodes) carrying the mark, as the cells the symbolic evaluator hands back do
            ef = exprgen.fresh_copy(e)
            marked = 0
            for t in exprgen.subterms(ef):
                if t.__class__.__name__ in ('ExprMem', 'ExprOp', 'ExprCond', 'ExprSlice'):
                    t.is_term = True
                    marked += 1
            if marked:
                probe_reads(sh, ef, (seedtag, 'marked'), flagged=False)
        except irsem.IllFormed:
            pass
    c = exprgen.canon(e)
    is_aff = e.__class__.__name__ == 'ExprAff'
    val_e = e.src if is_aff else e
    try:
        # the two questions in either order (by tree), and each once more afterwards: the answers may not depend on what was
        # asked before on the same object
        if len(c) % 2:
            R0 = e.get_r(mem_read=False)
            R1 = e.get_r(mem_read=True)
        else:
            R1 = e.get_r(mem_read=True)
            R0 = e.get_r(mem_read=False)
        again = (set(exprgen.canon(x) for x in e.get_r(mem_read=True)), set(exprgen.canon(x) for x in e.get_r(mem_read=False)))
        first = (set(exprgen.canon(x) for x in R1), set(exprgen.canon(x) for x in R0))
        sh.counters['read_sets_asked_again'] += 1
        if again != first:
            sh.violation('get_r-not-repeatable/%s' % e.__class__.__name__, 'get_r of %s: first (with memory, without) = %s, asked again = %s' % (e, [sorted(x) for x in first], [sorted(x) for x in again]), {'tree': c, 'probe': 'reads'})
    except Exception as exn:
        sh.violation('get_r-raises:%s/%s' % (type(exn).__name__, e.__class__.__name__), '%r on %s' % (exn, e), {'tree': c, 'probe': 'reads'})
        return
    r1_ids = set((x.name, x.size) for x in R1 if x.__class__.__name__ == 'ExprId')
    r0_ids = set((x.name, x.size) for x in R0 if x.__class__.__name__ == 'ExprId')
    r1_mems = set(exprgen.canon(x) for x in R1 if x.__class__.__name__ == 'ExprMem')
    r0_mems = set(exprgen.canon(x) for x in R0 if x.__class__.__name__ == 'ExprMem')
    envs = [irsem.Env(seed=(seedtag, i), segmented=True) for i in range(4)]

    def outputs(env):
        """The value of the expression (of the source, for an assignment: the statement only asks that
        get_w() names the destination; destination address registers are C08's business)."""
        try:
            return [irsem.evaluate(val_e, env)]
        except (irsem.Undefined, irsem.Uninterpreted):
            return None
    base = [outputs(env) for env in envs]
    pos = id_positions(e)
    for (name, size), where in sorted(pos.items()):
        witnessed = False
        for env, b in zip(envs, base):
            if b is None:
                continue
            old = env.id_value(name, size)
            for nv in (old ^ 1, (~old) & irsem.mask(size), (old + 0x55) & irsem.mask(size)):
                env2 = env.copy()
                env2.ids[name] = nv
                o = outputs(env2)
                if o is not None and o != b:
                    witnessed = True
                    break
            if witnessed:
                break
        sh.case(('dep-id', c, name), nontrivial=witnessed, cls='dep-id:%s' % holder_kind(e, name))
        if witnessed:
            if (name, size) not in r1_ids:
                sh.violation('get_r-omits/id/%s/mem_read=True' % holder_kind(e, name),
                             '%s influences %s but is not in get_r(mem_read=True)=%s' % (name, e, sorted(str(x) for x in R1)),
                             {'tree': c, 'probe': 'reads', 'id': name})
            if 'plain' in where and (name, size) not in r0_ids:
                # could be witnessed only through an address occurrence; re-probe is not needed for the
                # unchanged tree (get_r(False) is a superset for plain positions) - flag and let replay decide
                sh.violation('get_r-omits/id/%s/mem_read=False' % holder_kind(e, name),
                             '%s occurs outside any address in %s but is not in get_r(False)' % (name, e),
                             {'tree': c, 'probe': 'reads', 'id': name})
    # memory cells
    mems = [nd for nd in all_nodes_ids(val_e).values() if nd.__class__.__name__ == 'ExprMem']
    seen = set()
    for m in mems:
        cm = exprgen.canon(m)
        if cm in seen:
            continue
        seen.add(cm)
        witnessed = False
        for env, b in zip(envs, base):
            if b is None:
                continue
            try:
                addr = irsem.evaluate(m.arg, env)
            except (irsem.Undefined, irsem.Uninterpreted):
                continue
            n = m.size // 8
            old = env.load(addr, n)
            for nv in (old ^ 1, (~old) & irsem.mask(m.size), old ^ (1 << (m.size - 1))):
                env2 = env.copy()
                env2.store(addr, n, nv)
                o = outputs(env2)
                if o is not None and o != b:
                    witnessed = True
                    break
            if witnessed:
                break
        sh.case(('dep-mem', c, cm), nontrivial=witnessed, cls='dep-mem:%s' % mem_holder_kind(e, m))
        if witnessed:
            if cm not in r1_mems:
                sh.violation('get_r-omits/mem/%s/mem_read=True' % mem_holder_kind(e, m),
                             'cell %s influences %s but is not in get_r(mem_read=True)' % (m, e), {'tree': c, 'probe': 'reads', 'mem': cm})
    # get_w
    if is_aff:
        sh.case(('get_w', c), cls='get_w:%s' % e.dst.__class__.__name__)
        try:
            W = e.get_w()
            if sorted(exprgen.canon(x) for x in W) != [exprgen.canon(e.dst)]:
                sh.violation('get_w/%s' % e.dst.__class__.__name__, 'get_w(%s) = %s' % (e, sorted(str(x) for x in W)), {'tree': c, 'probe': 'reads'})
        except Exception as exn:
            sh.violation('get_w-raises:%s/%s' % (type(exn).__name__, e.dst.__class__.__name__), '%r on %s' % (exn, e), {'tree': c, 'probe': 'reads'})


# ---------------------------------------------------------------- MatchExpr

def ref_match(e, p, wild, res):
    """Independent structural matcher; wild: set of canon strings of wildcard ids; res: canon(wild)->canon(expr)."""
    cp = exprgen.canon(p)
    if cp in wild:
        ce = exprgen.canon(e)
        # a wildcard binds an expression of its own width
        if irsem.width(e) != irsem.width(p):
            return False
        if cp in res and res[cp] != ce:
            return False
        res[cp] = ce
        return True
    ke, kp = e.__class__.__name__, p.__class__.__name__
    if ke != kp:
        return False
    if ke in ('ExprInt', 'ExprId'):
        return exprgen.canon(e) == cp
    if ke == 'ExprMem':
        if e.size != p.size:
            return False
        if (e.segm is None) != (p.segm is None):
            return False
        if e.segm is not None and not ref_match(e.segm, p.segm, wild, res):
            return False
        return ref_match(e.arg, p.arg, wild, res)
    if ke == 'ExprSlice':
        return e.start == p.start and e.stop == p.stop and ref_match(e.arg, p.arg, wild, res)
    if ke == 'ExprCompose':
        if len(e.args) != len(p.args):
            return False
        for a, b in zip(e.args, p.args):
            if a[1] != b[1] or a[2] != b[2] or not ref_match(a[0], b[0], wild, res):
                return False
        return True
    if ke == 'ExprCond':
        return ref_match(e.cond, p.cond, wild, res) and ref_match(e.src1, p.src1, wild, res) and ref_match(e.src2, p.src2, wild, res)
    if ke == 'ExprOp':
        if e.op != p.op or len(e.args) != len(p.args):
            return False
        for a, b in zip(e.args, p.args):
            if not ref_match(a, b, wild, res):
                return False
        return True
    return False


REUSED_WILDS = []


def run_match(sh, e, p, wilds, what, mutation=None):
    """Evaluate MatchExpr(e,p,wilds) against the reference; `what` in {'instance','mutant'}."""
    ex, mi = exprgen.M()
    ce, cp = exprgen.canon(e), exprgen.canon(p)
    wit = {'tree': ce, 'pattern': cp, 'wild': [w.name for w in wilds], 'probe': 'match', 'sizes': [w.size for w in wilds]}
    wset = set(exprgen.canon(w) for w in wilds)
    ref_res = {}
    try:
        ref_ok = ref_match(e, p, wset, ref_res)
    except irsem.IllFormed:
        return
    try:
        # the wildcard container is one list object refilled between calls (a caller's work list): a result must not depend on
        # what the same container held during an earlier call; the call is repeated with a fresh list and must agree
        REUSED_WILDS[:] = list(wilds)
        r = ex.MatchExpr(e, p, REUSED_WILDS)
        r2 = ex.MatchExpr(e, p, list(wilds))
        same = (r is False and r2 is False) or (isinstance(r, dict) and isinstance(r2, dict) and
                                               sorted((exprgen.canon(k), exprgen.canon(v)) for k, v in r.items()) == sorted((exprgen.canon(k), exprgen.canon(v)) for k, v in r2.items()))
        if not same:
            sh.violation('match-depends-on-container-history/%s' % (mutation or 'instance'),
                         'MatchExpr(%s, %s) = %s with a refilled wildcard list but %s with a fresh list' % (e, p, r, r2), wit)
    except Exception as exn:
        sh.violation('match-raises:%s/%s' % (type(exn).__name__, mutation or 'instance'), '%r matching %s against %s' % (exn, e, p), wit)
        return
    matched = not (r is False)
    sh.case(('match', ce, cp), nontrivial=(what == 'instance' or not ref_ok), cls='match:%s:%s' % (what, mutation or p.__class__.__name__))
    if matched:
        bind = r if isinstance(r, dict) else {}
        # soundness: substituting the bindings into the pattern reproduces e
        d = {}
        for k, v in bind.items():
            d[exprgen.canon(k)] = v
        try:
            back = ref_subst(p, d)
            ok = exprgen.canon(back) == ce
        except Exception:
            ok = False
        if not ok:
            if not ref_ok:
                sh.violation('match-accepts-noninstance/%s' % (mutation or 'instance'),
                             'MatchExpr(%s, %s) = %s although no binding exists' % (e, p, dict((str(k), str(v)) for k, v in bind.items())), wit)
            else:
                sh.violation('match-unsound/%s' % (mutation or 'instance'),
                             'MatchExpr(%s, %s) = %s does not reproduce the expression' % (e, p, dict((str(k), str(v)) for k, v in bind.items())), wit)
    else:
        if ref_ok:
            sh.counters['match_incomplete(not in the statement)'] += 1


def gen_pattern(rng, g, w, depth, wilds):
    """Pattern tree whose leaves are drawn from wildcards (with repetition) and concrete leaves."""
    ex, mi = exprgen.M()
    p = g.gen(w, depth)
    # replace some identifiers by wildcards of the same width
    names = sorted(irsem.free_names(p))
    d = {}
    for (nm, sz) in names:
        if rng.random() < 0.7:
            wv = ex.ExprId('W_%s' % nm, sz)
            d[exprgen.canon(ex.ExprId(nm, sz))] = wv
            wilds.append(wv)
    return ref_subst(p, d)


def match_mutations(e, rng):
    from vf.checks.c15 import mutations
    for k, field, f in mutations(e, rng):
        yield '%s.%s' % (k, field), f


def check_match(sh, rng):
    ex, mi = exprgen.M()
    g = exprgen.Gen(rng, segm=True, names=('a', 'b'))
    w = rng.choice((8, 16, 32, 32))
    wilds = []
    p = gen_pattern(rng, g, w, rng.choice((1, 2, 2, 3)), wilds)
    if not wilds:
        return
    # binding: each wildcard -> a small expression of its width
    b = {}
    gb = exprgen.Gen(rng, names=('x', 'y'))
    for wv in wilds:
        b[exprgen.canon(wv)] = gb.gen(wv.size, rng.choice((0, 1, 1, 2)))
    e = ref_subst(p, b)
    run_match(sh, e, p, wilds, 'instance')
    if len(sh.samples) < 6:
        sh.sample({'pattern': str(p), 'wildcards': [str(x) for x in wilds], 'instance': str(e)})
    # mutated non-instances
    n = 0
    for name, f in match_mutations(e, rng):
        if exprgen.canon(f) == exprgen.canon(e):
            continue
        run_match(sh, f, p, wilds, 'mutant', name)
        n += 1
        if n >= 40:
            break
    # inconsistent repeated wildcard: rebind the instance with two different values for one wildcard
    counts = {}
    for t in exprgen.subterms(p):
        ct = exprgen.canon(t)
        if ct in b:
            counts[ct] = counts.get(ct, 0) + 1
    rep = [k for k, v in counts.items() if v >= 2]
    if rep:
        k = rep[0]
        # the second occurrence is bound to a near-twin of the first binding: the binding with one field of one node changed
        # (operator, arity, one operand, slice bounds, constant, ...), or wrapped; every alternative must be refused
        alts = [ex.ExprOp('^', b[k], exprgen.Int(1, irsem.width(b[k])))]
        wb = irsem.width(b[k])
        try:
            for nm_, f_ in match_mutations(b[k], rng):
                if exprgen.canon(f_) != exprgen.canon(b[k]) and irsem.width(f_) == wb:
                    alts.append(f_)
                if len(alts) >= 7:
                    break
        except Exception:
            pass
        if b[k].__class__.__name__ == 'ExprOp' and b[k].op in exprgen.AC:
            alts.append(ex.ExprOp(b[k].op, *(list(b[k].args) + [ex.ExprId('extra%d' % wb, wb)])))      # same operator, one more operand
        else:
            o2 = ex.ExprOp('+', b[k], ex.ExprId('extra%d' % wb, wb))
            alts.append(o2)
          
        state = {'n': 0, 'alt': alts[0]}

        def subst_incons(t):
            kk = t.__class__.__name__
            if exprgen.canon(t) == k:
                state['n'] += 1
                return b[k] if state['n'] == 1 else state['alt']
            if kk in ('ExprInt', 'ExprId'):
                return b.get(exprgen.canon(t), t)
            if kk == 'ExprMem':
                segm = t.segm
                if hasattr(segm, 'visit'):
                    segm = subst_incons(segm)
                return ex.ExprMem(subst_incons(t.arg), t.size, segm)
            if kk == 'ExprSlice':
                return ex.ExprSlice(subst_incons(t.arg), t.start, t.stop)
            if kk == 'ExprCompose':
                return ex.ExprCompose([(subst_incons(a), s, tt) for a, s, tt in t.args])
            if kk == 'ExprCond':
                return ex.ExprCond(subst_incons(t.cond), subst_incons(t.src1), subst_incons(t.src2))
            if kk == 'ExprOp':
                return ex.ExprOp(t.op, *[subst_incons(a) for a in t.args])
            return t
        for alt_ in alts:
            state['n'], state['alt'] = 0, alt_
            f = subst_incons(p)
            run_match(sh, f, p, wilds, 'mutant', 'repeated-wildcard-inconsistent')
        # one occurrence faces the wildcard's own identifier (expressions may mention it), the other the binding: both orders
        wself = [wv for wv in wilds if exprgen.canon(wv) == k][0]
        if exprgen.canon(b[k]) != k:
            state['n'], state['alt'] = 0, wself
            run_match(sh, subst_incons(p), p, wilds, 'mutant', 'repeated-wildcard-faces-itself')
            saved = b[k]
            state['n'], state['alt'] = 0, saved
            b[k] = wself
            try:
                f = subst_incons(p)
            finally:
                b[k] = saved
            run_match(sh, f, p, wilds, 'mutant', 'repeated-wildcard-faces-itself')
        # and the reverse order: the near-twin first, the binding second
        if b[k].__class__.__name__ == 'ExprOp':
            for alt_ in alts[-2:]:
                state['n'] = 0
                first = {'v': alt_}

                def subst_rev(t, _first=first):
                    return None
                state['alt'] = b[k]
                saved = b[k]
                b[k] = alt_
                try:
                    f = subst_incons(p)
                finally:
                    b[k] = saved
                run_match(sh, f, p, wilds, 'mutant', 'repeated-wildcard-inconsistent')


def fixed_match_cases(sh):
    """Deterministic (pattern, instance / non-instance) pairs, one per node kind x mutation kind."""
    ex, mi = exprgen.M()
    I, Id = exprgen.Int, ex.ExprId
    a, b = Id('W_a', 32), Id('W_b', 32)
    x, y, z = Id('x32', 32), Id('y32', 32), Id('z32', 32)
    ds, es = Id('ds', 16), Id('es', 16)
    a8 = Id('W_a8', 8)
    cases = [
        ('op', ex.ExprOp('+', a, b), [a, b], ex.ExprOp('*', x, y)),
        ('op-unary', ex.ExprOp('-', a), [a], ex.ExprOp('parity', x)),
        ('arity-more', ex.ExprOp('+', a, b), [a, b], ex.ExprOp('+', x, y, z)),
        ('arity-less', ex.ExprOp('+', a, b, x), [a, b], ex.ExprOp('+', y, z)),
        ('op-shift', ex.ExprOp('<<', a, I(1, 32)), [a], ex.ExprOp('>>', x, I(1, 32))),
        ('const', ex.ExprOp('+', a, I(4, 32)), [a], ex.ExprOp('+', x, I(5, 32))),
        ('mem-size', ex.ExprMem(a, 32), [a], ex.ExprMem(x, 16)),
        ('mem-segm', ex.ExprMem(a, 32, ds), [a], ex.ExprMem(x, 32, es)),
        ('mem-segm-missing', ex.ExprMem(a, 32, ds), [a], ex.ExprMem(x, 32, None)),
        ('slice-bounds', ex.ExprSlice(a, 0, 8), [a], ex.ExprSlice(x, 8, 16)),
        ('compose-arity', ex.ExprCompose([(a8, 0, 8), (I(0, 8), 8, 16)]), [a8], ex.ExprCompose([(Id('x8', 8), 0, 8), (I(0, 8), 8, 16), (I(0, 16), 16, 32)])),
        ('compose-arity-less', ex.ExprCompose([(a8, 0, 8), (I(0, 8), 8, 16), (I(0, 16), 16, 32)]), [a8], ex.ExprCompose([(Id('x8', 8), 0, 8), (I(0, 8), 8, 16)])),
        ('compose-slot', ex.ExprCompose([(a8, 0, 8), (I(0, 32), 8, 32)]), [a8], ex.ExprCompose([(Id('x8', 8), 0, 8), (I(0, 32), 8, 24), (I(0, 8), 24, 32)])),
        ('cond-arm', ex.ExprCond(a, x, y), [a], ex.ExprCond(z, y, x)),
        ('repeat', ex.ExprOp('+', a, a), [a], ex.ExprOp('+', x, y)),
        ('repeat-cond', ex.ExprCond(a, a, b), [a, b], ex.ExprCond(x, y, z)),
        ('kind', ex.ExprOp('+', a, b), [a, b], ex.ExprMem(x, 32)),
        ('repeat-self-first', ex.ExprOp('+', a, a), [a], ex.ExprOp('+', a, x)),
        ('repeat-self-second', ex.ExprOp('+', a, a), [a], ex.ExprOp('+', x, a)),
        ('repeat-self-cond', ex.ExprCond(a, a, a), [a], ex.ExprCond(x, a, x)),
        ('repeat-self-mem', ex.ExprOp('^', ex.ExprMem(ex.ExprOp('+', a, I(44, 32)), 32), a), [a], ex.ExprOp('^', ex.ExprMem(ex.ExprOp('+', a, I(44, 32)), 32), y)),
        ('repeat-self-two', ex.ExprOp('+', ex.ExprOp('<<', b, a), ex.ExprOp('&', b, b)), [a, b], ex.ExprOp('+', ex.ExprOp('<<', y, a), ex.ExprOp('&', b, y))),
        ('wild-width', ex.ExprOp('+', a, b), [a, b], ex.ExprOp('+', Id('x8', 8), Id('y8', 8))),
    ]
    for name, p, wilds, f in cases:
        run_match(sh, f, p, wilds, 'mutant', 'fixed:' + name)
    inst = [
        (ex.ExprOp('+', a, b), [a, b], ex.ExprOp('+', x, y)),
        (ex.ExprMem(ex.ExprOp('+', a, I(16, 32)), 32), [a], ex.ExprMem(ex.ExprOp('+', x, I(16, 32)), 32)),
        (ex.ExprCond(a, b, b), [a, b], ex.ExprCond(x, y, y)),
        (ex.ExprCompose([(a8, 0, 8), (a8, 8, 16)]), [a8], ex.ExprCompose([(Id('x8', 8), 0, 8), (Id('x8', 8), 8, 16)])),
        (ex.ExprSlice(a, 0, 8), [a], ex.ExprSlice(ex.ExprOp('^', x, y), 0, 8)),
        (ex.ExprOp('+', a, a), [a], ex.ExprOp('+', a, a)),
        (ex.ExprOp('+', a, ex.ExprOp('*', x, a)), [a], ex.ExprOp('+', b, ex.ExprOp('*', x, b))),
    ]
    for p, wilds, e in inst:
        run_match(sh, e, p, wilds, 'instance')


def shards(tier, seed):
    n = 48 if tier == 'quick' else 1200
    return [('reads', i) for i in range(n)] + [('match', i) for i in range(n)] + [('fixed',)]


def run_shard(shard, tier, seed):
    ex, mi = exprgen.M()
    sh = common.Shard()
    if shard[0] == 'fixed':
        fixed_match_cases(sh)
        from vf.checks.c15 import fixed_trees
        for i, e in enumerate(fixed_trees()):
            probe_reads(sh, e, ('f', i))
        # assignments to a part of a location (built through the constructor, as the lifter does): the rest of the location is
        # preserved, so the location itself is read; locations of 16, 32, 64 and 128 bits, registers and memory cells
        I, Id = exprgen.Int, ex.ExprId
        p32 = Id('p32', 32)
        locs = [Id('w16', 16), Id('e32', 32), Id('q64', 64), Id('x128', 128), ex.ExprMem(p32, 16), ex.ExprMem(p32, 64), ex.ExprMem(ex.ExprOp('+', p32, Id('i32', 32)), 32)]
        k = 0
        for L in locs:
            W = irsem.width(L)
            for (a_, b_) in ((0, 8), (8, 16), (0, 16), (0, 32), (32, 64), (16, 32), (0, 64), (64, 128), (W - 8, W)):
                if b_ > W or (a_ == 0 and b_ == W):
                    continue
                src = Id('s%d' % (b_ - a_), b_ - a_) if (b_ - a_) in (8, 16, 32, 64) else None
                if src is None:
                    continue
                try:
                    e = ex.ExprAff(ex.ExprSlice(L, a_, b_), src)
                except Exception as exn:
                    sh.violation('aff-slice-destination/raises:%s' % type(exn).__name__, 'ExprAff(%s[%d:%d], %s) raised %r' % (L, a_, b_, src, exn), {'tree': '', 'probe': 'reads'})
                    continue
                k += 1
                try:
                    bad = irsem.typecheck(e.src) or irsem.typecheck(e.dst) or (irsem.width(e.src) != irsem.width(e.dst) and [('width', '', 'source and destination widths differ')])
                except irsem.IllFormed as exn:
                    bad = [('ill-formed', '', repr(exn))]
                if bad:
                    sh.violation('aff-slice-destination/ill-formed/w%d' % W, 'ExprAff(%s[%d:%d], %s) builds %s: %s' % (L, a_, b_, src, e, str(bad)[:120]), {'tree': '', 'probe': 'reads'})
                    continue
                try:
                    probe_reads(sh, e, ('fa', k))
                except irsem.IllFormed as exn:
                    sh.violation('aff-slice-destination/ill-formed/w%d' % W, 'ExprAff(%s[%d:%d], %s) builds %s: %r' % (L, a_, b_, src, e, exn), {'tree': '', 'probe': 'reads'})
        return sh
    rng = common.rng_for(seed, 'C16', shard[0], shard[1])
    if shard[0] == 'reads':
        g = exprgen.Gen(rng, segm=True)
        for i in range(150 if tier == 'quick' else 300):
            w = rng.choice((8, 16, 32, 32, 64, 1))
            e = g.gen(w, rng.choice((1, 2, 3, 3, 4)))
            if rng.random() < 0.25:
                dst = g.ident(w, 'r') if (w < 8 or rng.random() < 0.5) else g.memcell(w, 1)
                e = ex.ExprAff(dst, e)
            probe_reads(sh, e, (seed, shard[1], i))
            if len(sh.samples) < 3:
                sh.sample({'tree': str(e), 'get_r': sorted(str(x) for x in e.get_r(mem_read=True))})
    else:
        for i in range(60 if tier == 'quick' else 120):
            check_match(sh, rng)
    return sh


def finalize(merged, tier, seed):
    out = {'coverage': {'match_incomplete_not_in_statement': int(merged.counters.get('match_incomplete(not in the statement)', 0))}}
    dep = sum(1 for c in merged.classes if c.startswith('dep-'))
    if dep == 0:
        out['inconclusive'] = ['no dependency probe class was reached']
    return out


def replay(w):
    sh = common.Shard()
    ex, mi = exprgen.M()
    e = parse_canon(w['tree'])
    if w.get('probe') == 'match':
        p = parse_canon(w['pattern'])
        wilds = [ex.ExprId(n, s) for n, s in zip(w['wild'], w['sizes'])]
        run_match(sh, e, p, wilds, 'mutant', 'replay')
        out = []
        for v in sh.violations:
            out.append((v['key'], v['detail']))
        return out
    probe_reads(sh, e, ('replay',))
    return [(v['key'], v['detail']) for v in sh.violations]
