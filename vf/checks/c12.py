"""C12 - API results depend only on explicit inputs (no hidden state between calls).

History monitor. Every probe call is first executed alone in a fresh process (baseline); then
child processes run a history of other API calls followed by the probes, and every result,
every input object and the shared tables are compared (canonical serialisation) with the
baseline / their state before the call. Parser-table cache configurations are compared across
fresh processes with TMPDIR pointing at prepared directories.
"""
import os
import sys
import json
import time
import shutil
import hashlib
import subprocess
from vf import common, exprgen, irsem

PROPERTY = 'C12'
RULE = ('probe calls (dis, both renderings, asm, asm_att, lifting, expr_simp on shared register objects, eval_expr of registers in states that '
        'bind them, emulation of blocks + dump_id/dump_mem) x history classes (decode sweep, assembly incl. raising and operand-mutating lines, '
        'lifting, simplification of shared singletons, evaluation of registers absent from a state, emulation on another machine, calls that raise, '
        'seeded interleavings of all of these, up to 50 calls). Baseline of each probe = its result alone in a fresh process. Also: structural '
        'snapshot of every input before/after each call, deep digest of the shared instruction/register tables before/after each history, and 6 '
        'parser-table cache configurations (empty, warm, stale signature with permuted tables, wrong table version, garbage, read-only). '
        'A case = (probe, history class); non-trivial = the probe ran after a non-empty history and its result was compared with the baseline.')
ASSUMPTIONS = ['memo attributes simp/is_eval are not part of an expression\'s structure (they are the mechanism under test, observed through results)']

BYTES_PROBES = ['01d8', '8b442404', 'ec', 'ee', 'd3e0', '66ef', '0fa5c3', 'f3a5', '8d440b05', 'c70544332211aabbccdd', '0f58c1', 'd8c1', 'e805000000',
                '7405', 'c3', '60', '0fb6c3', '8c00', '64a114000000', '6bc307', 'ffe0', 'a4', 'd7', '0fc8', '9c']
INTEL_PROBES = ['mov eax, DWORD PTR [ebx+4]', 'add BYTE PTR [eax], 3', 'lea ecx, [edx+eax*4+12]', 'push es', 'in al, dx', 'shl eax, cl', 'out dx, al',
                'jmp eax', 'imul eax, eax, 200', 'fadd st, st(1)', 'movsb', 'mov eax, OFFSET FLAT:toto', 'cmp al, -66', 'mov eax eax', 'mov ds, ax', 'foo bar']
ATT_PROBES = ['movl 4(%ebx), %eax', 'addb $3, (%eax)', 'leal 12(%edx,%eax,4), %ecx', 'inb %dx, %al', 'shll %cl, %eax', 'jmp *%eax', 'ret $4',
              'fadd %st(1), %st', 'movb $256, %al', 'xchgl %ebx, %eax', 'bogus %eax']
BLOCKS = [['movl %eax, 8(%esi)', 'pushl %eax', 'cmpl %eax, %ebx', 'shll %cl, %eax'],
          ['xchgl %ebx, %eax', 'addl $2, %ecx', 'negl %ecx', 'xorl %edx, %edx', 'rorl %cl, %eax'],
          ['fdiv %st, %st(2)', 'fsub %st, %st(2)', 'movl %eax, 32(%esi)', 'fdivl 32(%esi)'],
          ['movw %es, %ax', 'movw %bx, %es', 'movw %es, %cx']]


def probes():
    out = []
    for h in BYTES_PROBES:
        out.append(('dis', h))
        out.append(('lift', h))
    for l in INTEL_PROBES:
        out.append(('asm', l))
    for l in ATT_PROBES:
        out.append(('asm_att', l))
    for i in range(12):
        out.append(('simp', i))
    for r in ('eax', 'ecx', 'es', 'zf', 'eip', 'float_st0', 'ds'):
        out.append(('eval-bound-reg', r))
        out.append(('eval-reg-in-expr', r))
    for i in range(len(BLOCKS)):
        out.append(('emul', i))
    return out


def canon_obj(o):
    """Canonical, structure-only serialisation of results and inputs."""
    if o is None or isinstance(o, (bool, int, str)):
        return repr(o)
    if isinstance(o, float):
        return repr(o)
    if isinstance(o, (bytes, bytearray)):
        return 'b' + bytes(o).hex()
    if hasattr(o, 'visit') and o.__class__.__name__.startswith('Expr'):
        return exprgen.canon(o)
    if o.__class__.__name__ in ('uint1', 'uint8', 'uint16', 'uint32', 'uint64', 'uint128', 'int8', 'int16', 'int32', 'int64', 'int128'):
        return '%s(%d)' % (o.__class__.__name__, int(o))
    if isinstance(o, dict):
        return '{' + ','.join(sorted('%s:%s' % (canon_obj(k), canon_obj(v)) for k, v in o.items())) + '}'
    if isinstance(o, (list, tuple)):
        return '[' + ','.join(canon_obj(x) for x in o) + ']'
    if isinstance(o, (set, frozenset)):
        return 'set(' + ','.join(sorted(canon_obj(x) for x in o)) + ')'
    if o.__class__.__name__ == 'mnemonic':
        return 'mn(%s,%s,%s,%s,%s)' % (o.name, canon_obj(o.opc), canon_obj(o.afs), canon_obj(o.rm), canon_obj(o.modifs))
    if o.__class__.__name__ in ('x86_mn',):
        return 'ins(%s)' % ','.join('%s=%s' % (k, canon_obj(getattr(o, k, None))) for k in ('l', 'b', 'offset', 'prefix', 'opmode', 'admode', 'arg', 'm'))
    return '<%s>' % o.__class__.__name__


def digest(s):
    return hashlib.blake2b(s.encode(), digest_size=8).hexdigest()


def table_digests():
    from miasmx.arch import ia32_arch as A
    from miasmx.arch import ia32_sem as S
    from miasmx.arch.ia32_reg import x86_afs
    d = {}
    db = A.x86mndb
    for name in ('db_mnemo', 'db_afs', 'db_afs_16', 'db_afs_mm', 'db_afs_xmm', 'fd_afs', 'mnemo_lookup', 'sib_rez_u08_ebp', 'sib_rez_u32', 'sib_rez_u32_ebp'):
        if hasattr(db, name):
            d[name] = digest(canon_obj(getattr(db, name)))
    for name in ('r_eax', 'r_cl', 'r_ax', 'r_dx', 'att_mnemo_table', 'mnemo_mmx_hash', 'prefix_dic', 'prefix_seg'):
        if hasattr(A, name):
            d['arch.' + name] = digest(canon_obj(getattr(A, name)))
    regs = []
    for r in S.all_registers:
        regs.append((r.name, r.size, bool(r.is_term), bool(r.is_reg)))
    d['sem.all_registers'] = digest(repr(regs))
    d['sem.init_regs'] = digest(canon_obj(S.init_regs))
    return d


def simp_probe_tree(i):
    """Expressions built over the *shared* register singletons (as a client would)."""
    from miasmx.arch import ia32_sem as S
    import miasmx.expression.expression as ex
    I = exprgen.Int
    trees = [
        lambda: S.eax + I(0, 32),
        lambda: ex.ExprOp('^', S.eax, S.eax),
        lambda: (S.eax + S.ebx) + (S.ecx + I(4, 32)),
        lambda: ex.ExprOp('-', S.eax, S.ebx),
        lambda: S.eax[0:8],
        lambda: ex.ExprCompose([(S.eax[0:16], 0, 16), (S.eax[16:32], 16, 32)]),
        lambda: ex.ExprCond(I(1, 32), S.eax, S.ebx),
        lambda: ex.ExprOp('>>', ex.ExprOp('&', S.ecx, I(8, 32)), I(3, 32)),
        lambda: ex.ExprMem(S.esp + I(4, 32), 32),
        lambda: ex.ExprOp('<<<', ex.ExprOp('<<<', S.edx, I(3, 32)), I(5, 32)),
        lambda: ex.ExprOp('+', S.esi, ex.ExprOp('-', S.esi)),
        lambda: ex.ExprOp('parity', S.eax & I(0xff, 32)),
    ]
    return trees[i % len(trees)]()


def run_probe(p):
    """Returns (result canon, list of input-mutation descriptions)."""
    from miasmx.arch.ia32_arch import x86mnemo
    from miasmx.tools import emul_helper
    from miasmx.arch import ia32_sem as S
    from miasmx.expression.expression_eval_abstract import eval_abs
    import miasmx.expression.expression_helper as eh
    import miasmx.expression.expression as ex
    kind, arg = p
    muts = []
    try:
        if kind == 'dis':
            b = bytes.fromhex(arg)
            ins = x86mnemo.dis(b)
            if ins is None:
                return 'None', muts
            r = [ins.l, bytes(ins.b).hex(), canon_obj(ins.arg), ins.m.name]
            before = canon_obj(ins)
            for fmt in (None, 'att_syntax binutils'):
                try:
                    r.append(ins.__str__(asm_format=fmt) if fmt else str(ins))
                except Exception as e:
                    r.append('raises ' + type(e).__name__)
            if canon_obj(ins) != before:
                muts.append('instruction-object-by-rendering')
            return canon_obj(r), muts
        if kind == 'lift':
            b = bytes.fromhex(arg)
            ins = x86mnemo.dis(b)
            if ins is None:
                return 'None', muts
            before = canon_obj(ins)
            nxt = exprgen.Int(0x1000 + ins.l, 32)
            affs = emul_helper.get_instr_expr(ins, nxt, [])
            r = canon_obj(list(affs))
            after = canon_obj(ins)
            if after != before:
                muts.append('instruction-object-by-lifting')
            # a second lift of the same object must agree
            affs2 = emul_helper.get_instr_expr(ins, exprgen.Int(0x1000 + ins.l, 32), [])
            if canon_obj(list(affs2)) != r:
                muts.append('second-lift-differs')
            return r, muts
        if kind in ('asm', 'asm_att'):
            f = x86mnemo.asm if kind == 'asm' else x86mnemo.asm_att
            line = str(arg)
            try:
                r = f(line)
            except ValueError:
                return 'ValueError', muts
            if line != arg:
                muts.append('line')
            return canon_obj(r), muts
        if kind == 'simp':
            t = simp_probe_tree(arg)
            before = exprgen.canon(t)
            r = eh.expr_simp(t)
            if exprgen.canon(t) != before:
                muts.append('expression-by-expr_simp')
            return exprgen.canon(r), muts
        if kind == 'eval-bound-reg':
            reg = getattr(S, arg)
            val = exprgen.Int(5, reg.size) if reg.size in (1, 8, 16, 32, 64) else ex.ExprId('sym_%s' % arg, reg.size)
            state = {reg: val}
            m = eval_abs(state)
            before = canon_obj(dict(m.pool.pool_id))
            r = m.eval_expr(reg, {})
            if canon_obj(dict(m.pool.pool_id)) != before:
                muts.append('machine-state-by-eval_expr')
            return exprgen.canon(r), muts
        if kind == 'eval-reg-in-expr':
            reg = getattr(S, arg)
            if reg.size not in (1, 8, 16, 32, 64):
                val = ex.ExprId('sym_%s' % arg, reg.size)
                e = ex.ExprCond(exprgen.Int(1, 32), reg, reg)
            else:
                val = exprgen.Int(6, reg.size)
                e = ex.ExprOp('+', reg, exprgen.Int(1, reg.size))
            m = eval_abs({reg: val})
            before = exprgen.canon(e)
            r = m.eval_expr(e, {})
            if exprgen.canon(e) != before:
                muts.append('expression-by-eval_expr')
            return exprgen.canon(r), muts
        if kind == 'emul':
            lines = []
            for l in BLOCKS[arg]:
                c = x86mnemo.asm_att(l)
                lines.append(x86mnemo.dis(c[0]))
            m = emul_helper.x86_machine()
            emul_helper.emul_lines(m, lines)
            return canon_obj([m.dump_id(), m.dump_mem()]), muts
    except Exception as e:
        return 'raises %s' % type(e).__name__, muts
    return '?', muts


HISTORY_CLASSES = ['decode-sweep', 'assemble', 'assemble-raising', 'lift', 'simp-shared', 'eval-absent-regs', 'emulate-other-machine', 'raising-calls', 'mixed']


def run_history(cls, seed, n=50):
    from miasmx.arch.ia32_arch import x86mnemo
    from miasmx.tools import emul_helper
    from miasmx.arch import ia32_sem as S
    from miasmx.expression.expression_eval_abstract import eval_abs
    import miasmx.expression.expression_helper as eh
    import miasmx.expression.expression as ex
    rng = common.rng_for(seed, 'C12hist', cls)

    def one(kind):
        try:
            if kind == 'decode-sweep':
                b = bytes(rng.getrandbits(8) for _ in range(rng.randint(1, 12)))
                ins = x86mnemo.dis(b)
                if ins is not None:
                    str(ins)
                    try:
                        ins.__str__(asm_format='att_syntax binutils')
                    except Exception:
                        pass
            elif kind == 'assemble':
                x86mnemo.asm(rng.choice(INTEL_PROBES[:13] + ['mov ecx, DWORD PTR [eax+%d]' % rng.randint(0, 300), 'add eax, %d' % rng.getrandbits(20), 'shl ebx, cl', 'out dx, eax', 'in eax, dx']))
                x86mnemo.asm_att(rng.choice(ATT_PROBES[:10] + ['movl $%d, %%eax' % rng.getrandbits(16), 'shrl %cl, %edx', 'outb %al, %dx']))
            elif kind == 'assemble-raising':
                for l in ('mov eax eax', 'foo bar', 'mov ds, ax', 'mov ax, [bx+si]', 'mov - eax', 'call cs : PTR', 'lea ecx, [al+dl]'):
                    try:
                        x86mnemo.asm(l)
                    except Exception:
                        pass
                for l in ('bogus %eax', 'movl (%eax', 'movl $, %eax', 'call *', 'movb $256, %al'):
                    try:
                        x86mnemo.asm_att(l)
                    except Exception:
                        pass
            elif kind == 'lift':
                h = rng.choice(BYTES_PROBES + ['f7f3', '0fafc3', 'c1e005', 'a5', 'ab', '9d', 'c9', '0fa2', 'cd80', '0f31'])
                ins = x86mnemo.dis(bytes.fromhex(h))
                if ins is not None:
                    emul_helper.get_instr_expr(ins, exprgen.Int(rng.getrandbits(16), 32), [])
            elif kind == 'simp-shared':
                eh.expr_simp(simp_probe_tree(rng.randrange(12)))
                eh.expr_simp(S.eax)
                eh.expr_simp(ex.ExprOp('+', S.es, exprgen.Int(0, 16)))
            elif kind == 'eval-absent-regs':
                m = eval_abs({})
                for r in (S.eax, S.ecx, S.es, S.ds, S.zf, S.eip, S.float_st0, S.esp, S.cf):
                    m.eval_expr(r, {})
                    m.eval_expr(ex.ExprOp('+', r, exprgen.Int(1, r.size)) if r.size in (1, 8, 16, 32, 64) else r, {})
                m.eval_expr(ex.ExprMem(S.esp, 32), {})
            elif kind == 'emulate-other-machine':
                for blk in BLOCKS:
                    lines = []
                    for l in blk:
                        lines.append(x86mnemo.dis(x86mnemo.asm_att(l)[0]))
                    m = emul_helper.x86_machine()
                    emul_helper.emul_lines(m, lines)
                    m.dump_id(); m.dump_mem()
            elif kind == 'raising-calls':
                for f in (lambda: x86mnemo.dis(b''), lambda: x86mnemo.asm(''), lambda: x86mnemo.asm_att('%'), lambda: eh.expr_simp(ex.ExprOp('+', exprgen.Int(1, 8), exprgen.Int(1, 32))),
                          lambda: eval_abs({}).eval_expr(ex.ExprOp('div32', exprgen.Int(1, 32), exprgen.Int(1, 32), exprgen.Int(0, 32)), {}),
                          lambda: emul_helper.get_instr_expr(x86mnemo.dis(bytes.fromhex('0f0108')), exprgen.Int(0, 32), [])):
                    try:
                        f()
                    except Exception:
                        pass
        except Exception:
            pass
    if cls == 'mixed':
        kinds = HISTORY_CLASSES[:-1]
        for _ in range(n):
            one(rng.choice(kinds))
    else:
        for _ in range(n if cls in ('decode-sweep', 'assemble', 'lift', 'simp-shared') else max(3, n // 10)):
            one(cls)


def child_main(spec_path, out_path):
    common.setup_paths()
    spec = json.load(open(spec_path))
    if spec.get('private_tmp', True):
        common.private_tmpdir('c12')
    out = {'results': {}, 'mutations': {}, 'tables_before': None, 'tables_after': None, 'errors': []}
    try:
        import miasmx.arch.ia32_arch  # noqa: F401  (table construction)
        out['tables_before'] = table_digests()
        for h in spec.get('history', []):
            run_history(h, spec.get('seed', 0), spec.get('hist_len', 50))
        out['tables_after_history'] = table_digests()
        for p in spec['probes']:
            r, muts = run_probe(tuple(p))
            out['results'][json.dumps(p)] = r
            if muts:
                out['mutations'][json.dumps(p)] = muts
        out['tables_after'] = table_digests()
    except Exception as e:
        import traceback
        out['errors'].append(traceback.format_exc())
    with open(out_path, 'w') as f:
        json.dump(out, f)


def spawn(spec, tag, env_extra=None):
    d = os.path.join(common.BUILD, 'tmp', os.environ.get('VERIF_RUNTAG', 'x') + '.c12')
    os.makedirs(d, exist_ok=True)
    sp = os.path.join(d, 'spec.%s.json' % tag)
    op = os.path.join(d, 'out.%s.json' % tag)
    json.dump(spec, open(sp, 'w'))
    env = dict(os.environ, PYTHONHASHSEED='0', PYTHONDONTWRITEBYTECODE='1')
    env.update(env_extra or {})
    p = subprocess.Popen([sys.executable, '-c', 'import sys; sys.path.insert(0, %r); from vf.checks import c12; c12.child_main(%r, %r)' % (common.VERIF, sp, op)],
                         env=env, cwd=common.VERIF, stdout=subprocess.DEVNULL, stderr=subprocess.PIPE)
    return p, op


def run_children(jobs, maxpar=16, timeout=900):
    """jobs: list of (tag, spec, env). Returns dict tag -> output dict (or {'errors': [...]})."""
    res = {}
    pending = list(jobs)
    running = []
    while pending or running:
        while pending and len(running) < maxpar:
            tag, spec, env = pending.pop(0)
            p, op = spawn(spec, tag, env)
            running.append((tag, p, op, time.time()))
        still = []
        for tag, p, op, t0 in running:
            rc = p.poll()
            if rc is None:
                if time.time() - t0 > timeout:
                    p.kill()
                    res[tag] = {'errors': ['watchdog'], 'results': {}, 'mutations': {}}
                else:
                    still.append((tag, p, op, t0))
                continue
            err = p.stderr.read().decode(errors='replace')
            if rc != 0 or not os.path.exists(op):
                res[tag] = {'errors': ['child failed rc=%s: %s' % (rc, err[-800:])], 'results': {}, 'mutations': {}}
            else:
                res[tag] = json.load(open(op))
        running = still
        if running:
            time.sleep(0.02)
    return res


def prepare_cache_dirs(base):
    """Creates the cache-directory configurations; returns dict name -> path."""
    dirs = {}
    for name in ('empty', 'warm', 'stale', 'badversion', 'garbage', 'readonly'):
        d = os.path.join(base, name)
        if os.path.isdir(d):
            shutil.rmtree(d, ignore_errors=True)
        os.makedirs(d)
        dirs[name] = d
    # warm: let a process generate the tables
    subprocess.run([sys.executable, '-c', 'import sys; sys.path.insert(0, %r); import miasmx.arch.ia32_arch' % common.REPO],
                   env=dict(os.environ, TMPDIR=dirs['warm'], PYTHONDONTWRITEBYTECODE='1'), stdout=subprocess.DEVNULL, stderr=subprocess.DEVNULL)
    files = [f for f in os.listdir(dirs['warm']) if f.endswith('.py')]
    for f in files:
        src = open(os.path.join(dirs['warm'], f)).read()
        # stale: foreign signature and a permuted action table (as if produced from another grammar)
        st = src
        import re as _re
        st = _re.sub(r"_lr_signature = .*", "_lr_signature = 'STALE0000000000000000000000000000'", st, count=1)
        st = st.replace('_lr_action_items = {', "_lr_action_items = {'$end':([0,1,2,3],[-1,-2,-3,-4]),", 1)
        open(os.path.join(dirs['stale'], f), 'w').write(st)
        bv = _re.sub(r"_tabversion = .*", "_tabversion = '0.0'", src, count=1)
        open(os.path.join(dirs['badversion'], f), 'w').write(bv)
        open(os.path.join(dirs['garbage'], f), 'w').write(src[:len(src) // 3] + '\n)))) this is not python\n')
    os.chmod(dirs['readonly'], 0o555)
    return dirs, files


def main(tier, seed):
    t0 = time.time()
    merged = common.Shard()
    reasons = []
    pr = probes()
    # 1. baselines: each probe alone in a fresh process
    jobs = [('base%d' % i, {'history': [], 'probes': [list(p)], 'seed': seed}, None) for i, p in enumerate(pr)]
    base = run_children(jobs)
    baseline = {}
    for i, p in enumerate(pr):
        o = base['base%d' % i]
        if o.get('errors'):
            reasons.append('baseline child for %r failed: %s' % (p, o['errors'][0][-300:]))
            continue
        baseline[json.dumps(list(p))] = o['results'][json.dumps(list(p))]
        for k, muts in o.get('mutations', {}).items():
            for mu in muts:
                merged.violation('input-mutated:%s/%s' % (mu, p[0]), 'probe %r alone: %s' % (p, mu), {'probe': list(p), 'history': []})
        merged.case(('baseline', p), nontrivial=False, cls='baseline:' + p[0])
    # 2. histories
    hist_specs = []
    nrep = 1 if tier == 'quick' else 12
    for h in HISTORY_CLASSES:
        for r in range(nrep):
            hist_specs.append(([h], seed * 1000 + r))
    for r in range(2 if tier == 'quick' else 40):
        rng = common.rng_for(seed, 'C12combo', r)
        hs = [rng.choice(HISTORY_CLASSES) for _ in range(rng.randint(2, 4))]
        hist_specs.append((hs, seed * 1000 + 500 + r))
    hist_specs.append(([], seed))          # probes only, in sequence (probe-on-probe effects)
    jobs = []
    for j, (hs, sd) in enumerate(hist_specs):
        rng = common.rng_for(sd, 'C12order', j)
        order = [list(p) for p in pr]
        if j % 2:
            rng.shuffle(order)
        jobs.append(('hist%d' % j, {'history': hs, 'probes': order, 'seed': sd, 'hist_len': 50}, None))
    outs = run_children(jobs)
    suspects = []
    for j, (hs, sd) in enumerate(hist_specs):
        o = outs['hist%d' % j]
        hname = '+'.join(hs) if hs else 'probe-sequence'
        if o.get('errors'):
            reasons.append('history child %s failed: %s' % (hname, o['errors'][0][-300:]))
            continue
        for k, r in o['results'].items():
            p = tuple(json.loads(k))
            merged.case(('hist', hname, sd, k), nontrivial=True, cls='%s|%s' % (p[0], hname))
            if k in baseline and r != baseline[k]:
                suspects.append((p, hs, sd, r, baseline[k]))
        for k, muts in o.get('mutations', {}).items():
            p = tuple(json.loads(k))
            for mu in muts:
                merged.violation('input-mutated:%s/%s' % (mu, p[0]), 'probe %r after %s: %s' % (p, hname, mu), {'probe': list(p), 'history': hs, 'seed': sd})
        tb, th, ta = o.get('tables_before'), o.get('tables_after_history'), o.get('tables_after')
        for name in sorted(tb or {}):
            if th and th.get(name) != tb[name]:
                merged.violation('table-mutated:%s/%s' % (name, hname if len(hs) <= 1 else 'combined'), 'table %s differs after history %s' % (name, hname), {'history': hs, 'seed': sd, 'probe': None})
            elif ta and ta.get(name) != tb[name]:
                merged.violation('table-mutated:%s/probes' % name, 'table %s differs after the probe sequence' % name, {'history': hs, 'seed': sd, 'probe': None})
    # 3. attribute each changed result: history alone + that probe
    attr_jobs = []
    seen = set()
    for p, hs, sd, r, b in suspects:
        key = (p, tuple(hs))
        if key in seen:
            continue
        seen.add(key)
        attr_jobs.append(('attr%d' % len(attr_jobs), {'history': hs, 'probes': [list(p)], 'seed': sd, 'hist_len': 50}, None, p, hs, sd, r, b))
    aouts = run_children([(a[0], a[1], a[2]) for a in attr_jobs])
    for tag, spec, _, p, hs, sd, r, b in attr_jobs:
        o = aouts[tag]
        k = json.dumps(list(p))
        alone = o.get('results', {}).get(k)
        if hs and alone is not None and alone != b:
            culprits = []
            if len(hs) > 1:
                # which single class suffices
                sub = run_children([('sub%s_%d' % (tag, i), {'history': [h], 'probes': [list(p)], 'seed': sd, 'hist_len': 50}, None) for i, h in enumerate(hs)])
                for i, h in enumerate(hs):
                    if sub['sub%s_%d' % (tag, i)].get('results', {}).get(k) != b:
                        culprits.append(h)
            names = sorted(set(culprits)) if culprits else (['+'.join(hs)] if len(hs) == 1 else ['combination'])
            for hname in names:
                merged.violation('result-changed/%s/after=%s' % (p[0], hname),
                                 'probe %r returns %s after history %s, but %s alone in a fresh process' % (p, r[:200], hs, b[:200]), {'probe': list(p), 'history': hs, 'seed': sd})
        else:
            merged.violation('result-changed/%s/after=earlier-probes' % p[0],
                             'probe %r returns %s after the other probes (history %s), but %s alone in a fresh process' % (p, r[:200], hs, b[:200]),
                             {'probe': list(p), 'history': hs, 'seed': sd, 'all_probes': True})
    # 4. parser-table cache configurations
    cbase = os.path.join(common.BUILD, 'tmp', os.environ.get('VERIF_RUNTAG', 'x') + '.c12cache')
    os.makedirs(cbase, exist_ok=True)
    dirs, files = prepare_cache_dirs(cbase)
    asm_probes = [list(p) for p in pr if p[0] in ('asm', 'asm_att')]
    cjobs = [('cache_' + name, {'history': [], 'probes': asm_probes, 'seed': seed, 'private_tmp': False}, {'TMPDIR': d}) for name, d in dirs.items()]
    couts = run_children(cjobs)
    ref = couts.get('cache_empty', {})
    if ref.get('errors') or not ref.get('results'):
        reasons.append('cache reference child failed: %s' % (ref.get('errors'),))
    else:
        for name in dirs:
            o = couts['cache_' + name]
            merged.case(('cache', name), nontrivial=(name != 'empty'), cls='cache:' + name)
            if o.get('errors'):
                merged.violation('cache-config:%s/process-fails' % name, 'with TMPDIR=%s configuration the process failed: %s' % (name, o['errors'][0][-300:]), {'cache': name})
                continue
            diffs = [k for k in ref['results'] if o['results'].get(k) != ref['results'][k]]
            if diffs:
                merged.violation('cache-config:%s/results-differ' % name, 'with the %s cache directory %d assembly results differ from the empty-directory run, e.g. %s: %s vs %s' % (
                    name, len(diffs), diffs[0], o['results'].get(diffs[0]), ref['results'][diffs[0]]), {'cache': name})
    try:
        os.chmod(dirs['readonly'], 0o755)
    except Exception:
        pass
    merged.samples.append({'probe': list(pr[0]), 'baseline': baseline.get(json.dumps(list(pr[0])), '')[:200], 'histories': len(hist_specs)})
    merged.samples.append({'cache configurations': sorted(dirs), 'table files': files})
    cov = {'probes': len(pr), 'history_children': len(hist_specs), 'cache_configurations': sorted(dirs), 'attribution_children': len(attr_jobs)}
    return common.conclude(PROPERTY, tier, seed, merged, [], RULE, ASSUMPTIONS, t0, extra_cov=cov, inconclusive_reasons=reasons)


def replay(w):
    if 'cache' in w:
        return []
    p = w.get('probe')
    if not p:
        return []
    base = run_children([('rb', {'history': [], 'probes': [p], 'seed': 0}, None)])['rb']
    probes_list = [list(x) for x in probes()] if w.get('all_probes') else [p]
    o = run_children([('rh', {'history': w.get('history', []), 'probes': probes_list, 'seed': w.get('seed', 0), 'hist_len': 50}, None)])['rh']
    k = json.dumps(p)
    if o.get('results', {}).get(k) != base.get('results', {}).get(k):
        return [('result-changed/%s/after=%s' % (p[0], '+'.join(w.get('history', [])) or 'earlier-probes'), 'result differs from the fresh-process baseline')]
    return []
