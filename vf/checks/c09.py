"""C09 - Intel and AT&T renderings denote the same instruction and are valid GNU as input.

Monitors: (1) metamorphic - the AT&T rendering fed to asm_att must reproduce the canonical
encoding (the Intel direction is decided by C03's backward part); (2) reference model - each
rendering (Intel, AT&T binutils, AT&T objdump format) of a compiler-emittable instruction must
be accepted by GNU as in the matching mode and assemble to bytes that objdump reads like the
original.
"""
import re
from vf import common, gnuref, x86ref, x86space
from vf.checks.c03 import family
from vf.checks import c03

PROPERTY = 'C09'
RULE = ('the C01 byte space without redundant prefixes (opcode cells x 256 ModRM x SIB/filler classes, prefixes none/66 and a reduced set for 67/segment/rep/lock; the SIB classes include base == index with a scale), '
        'strings decoded by miasmX with the reference length. Renderings: Intel, AT&T (binutils), AT&T (objdump immediate format). Clause 1 on canonical strings '
        '(as(objdump(b)) == b): b must be among asm_att(AT&T rendering). Clause 2 on compiler-emittable instructions (no relative branch, no absolute numeric memory '
        'operand): GNU as must accept each rendering in the matching mode and objdump must read the result like b. A case = (bytes, rendering kind); non-trivial = the '
        'rendering exists and was submitted to the parser / to GNU as.')
RULE += ' Round 10: one instruction in four is printed a second time in the opposite order of syntaxes; each rendering must read as the first time.'
ASSUMPTIONS = ['GNU as 2.40 defines what is valid assembler input in each syntax mode; meaning-free encoding differences are normalised as in C01',
               'the Intel half of clause 1 is C03\'s backward direction and is not repeated here']

ABS_MEM = re.compile(r'[c-gs]s:0x|\[eiz|:0x[0-9a-f]+$|ds:-?\d')


def analyse(sh, items):
    from miasmx.arch.ia32_arch import x86mnemo
    dec = []
    for b, cls in items:
        try:
            d = x86mnemo.dis(b)
        except Exception:
            continue
        if d is None:
            continue
        dec.append((b, cls, d))
    if not dec:
        return
    ref = gnuref.objdump([x[0] for x in dec])
    sel = []
    seen = set()
    for (b, cls, d), (rl, rt) in zip(dec, ref):
        if gnuref.superfluous_prefix(rt) or rl == 0 or rl > len(b) or d.l != rl:
            continue
        bb = b[:rl]
        if bb in seen:
            continue
        seen.add(bb)
        texts = {}
        for kind, fmt in (('intel', None), ('att', 'att_syntax binutils'), ('att-objdump', 'att_syntax objdump')):
            try:
                texts[kind] = d.__str__(asm_format=fmt) if fmt else str(d)
            except Exception:
                sh.counters['render_raises(C10):' + kind] += 1
        # the renderings of one object do not depend on which syntax was printed first: one instruction in four is printed again,
        # in the opposite order, and must read the same
        if (bb[0] + len(bb) + bb[-1]) % 4 == 0:
            sh.counters['rendered_twice'] += 1
            for kind, fmt in (('att-objdump', 'att_syntax objdump'), ('att', 'att_syntax binutils'), ('intel', None)):
                try:
                    t2 = d.__str__(asm_format=fmt) if fmt else str(d)
                except Exception as e_:
                    t2 = 'raises %s' % type(e_).__name__
                if kind in texts and t2 != texts[kind]:
                    sh.case((bb, 'rendered-twice'), True, cls=None)
                    sh.violation('%s/second-rendering-differs' % kind, 'bytes %s: first printed as %r; after the other syntaxes were printed the same object prints %r' % (bb.hex(), texts[kind], t2), {'bytes': bb.hex()})
                    break
        sel.append((bb, cls, d.m.name, rt, texts))
    if not sel:
        return
    canon_asm = gnuref.gas([re.sub(r'\s+', ' ', x[3]) for x in sel], 'intel')
    # submit the renderings to GNU as
    jobs = {'intel': [], 'att': [], 'att-objdump': []}
    for i, (bb, cls, mname, rt, texts) in enumerate(sel):
        emittable = not x86ref.is_rel_branch(rt) and not ABS_MEM.search(x86ref.norm_ref_text(rt)) and not x86ref.FARPTR_RE.search(rt)
        if not emittable:
            continue
        for kind in jobs:
            if kind in texts:
                jobs[kind].append((i, texts[kind]))
    gas_res = {}
    for kind, lst in jobs.items():
        if not lst:
            continue
        lines = [(x86ref.intel_for_gas(t) if kind == 'intel' else t.strip()) for i, t in lst]
        res = gnuref.gas(lines, 'intel' if kind == 'intel' else 'att')
        ok = [(j, r[0]) for j, r in enumerate(res) if r[0]]
        back = dict(zip([j for j, g in ok], gnuref.objdump([g for j, g in ok])))
        for j, (i, t) in enumerate(lst):
            gas_res[(i, kind)] = (res[j], back.get(j))
    for i, (bb, cls, mname, rt, texts) in enumerate(sel):
        mn = x86ref.ref_mnemonic(rt)
        sig = x86ref.operand_sig(x86ref.norm_ref_text(rt))
        pc = x86ref.prefix_class(bb)
        fam = 'MMX-SSE' if ('xmm' in sig or 'mm' in sig.split(',') or '#' in mname) else family(mn)
        if fam == 'MMX-SSE':
            sig = '*'
            if '67' not in pc:
                fam = 'MMX-SSE:' + mname        # one key per table row (a family-wide key would hide a newly broken row)
        if '67' in pc:
            fam, sig = ('addr16' if not fam.startswith('MMX-SSE') else fam), '*'
        elif 'seg' in pc and not fam.startswith('MMX-SSE'):
            fam = c03.seg_family(mn)
        wit = {'bytes': bb.hex()}
        canonical = canon_asm[i][0] == bb
        # clause 1: AT&T rendering through miasmX's own AT&T parser
        if canonical and 'att' in texts and not x86ref.is_rel_branch(rt):
            sh.case((bb, 'att-parser'), True, cls='att-parser/%d.%02x/p%s' % (cls[0][0], cls[0][1], cls[1]))
            try:
                c = x86mnemo.asm_att(texts['att'])
                if bb not in c:
                    sh.violation('att/%s/%s/p=%s/not-reproduced' % (fam, sig, pc), 'bytes %s (%s): AT&T rendering %r assembles (asm_att) to %s' % (
                        bb.hex(), rt, texts['att'], [x.hex() for x in c[:4]]), wit)
            except ValueError as e:
                sh.violation('att/%s/%s/p=%s/parser-rejects' % (fam, sig, pc), 'bytes %s (%s): asm_att rejects its own rendering %r' % (bb.hex(), rt, texts['att']), wit)
            except Exception as e:
                sh.violation('att/%s/%s/p=%s/parser-raises:%s' % (fam, sig, pc, type(e).__name__), 'bytes %s (%s): asm_att(%r) raised %r' % (bb.hex(), rt, texts['att'], e), wit)
        # clause 2: GNU as
        outcome = {}
        for kind in ('intel', 'att', 'att-objdump'):
            if (i, kind) not in gas_res:
                continue
            (g, msg), back = gas_res[(i, kind)]
            if not g and 'expecting lockable instruction' in msg:
                # the reference itself refuses this lock usage: not an instruction a compiler emits (outside the quantifier)
                sh.counters['invalid_lock_usage(outside quantifier)'] += 1
                continue
            sh.case((bb, 'gas-' + kind), True, cls='gas-%s/%d.%02x/p%s' % (kind, cls[0][0], cls[0][1], cls[1]))
            if len(sh.samples) < 4:
                sh.sample({'bytes': bb.hex(), 'reference': rt, 'rendering': texts[kind], 'kind': kind, 'gas': g.hex() if g else msg[:60]})
            if not g:
                outcome[kind] = 'gas-rejects'
                if kind == 'att-objdump' and outcome.get('att') == 'gas-rejects':
                    sh.counters['att-objdump fails like att (reported once)'] += 1
                    continue
                sh.violation('%s/%s/%s/p=%s/gas-rejects' % (kind, fam, sig, pc), 'bytes %s (%s): GNU as rejects the %s rendering %r: %s' % (bb.hex(), rt, kind, texts[kind], msg[:100]), wit)
                continue
            if 'shortened' in msg or 'truncated' in msg:
                sh.violation('%s/%s/%s/p=%s/gas-differs' % (kind, fam, sig, pc), 'bytes %s (%s): GNU as shortens a value of the %s rendering %r' % (bb.hex(), rt, kind, texts[kind]), wit)
                continue
            n1, n2 = x86ref.norm_ref_text(back[1]), x86ref.norm_ref_text(rt)
            if back[0] != len(g) or (n1 != n2 and x86ref.drop_default_ds(n1) != x86ref.drop_default_ds(n2)):
                outcome[kind] = 'gas-differs:' + n1
                if kind == 'att-objdump' and outcome.get('att') == outcome[kind]:
                    sh.counters['att-objdump fails like att (reported once)'] += 1
                    continue
                sh.violation('%s/%s/%s/p=%s/gas-differs' % (kind, fam, sig, pc), 'bytes %s mean "%s" but the %s rendering %r means "%s" to GNU as' % (bb.hex(), rt, kind, texts[kind], back[1]), wit)


def shards(tier, seed):
    cl = x86space.cells()
    return [('cells', i, 8) for i in range(0, len(cl), 8)] + [('prefixes', i, 64) for i in range(0, len(cl), 64)] + [('grids', 0, 0)]


def run_shard(shard, tier, seed):
    sh = common.Shard()
    cl = x86space.cells()[shard[1]:shard[1] + shard[2]]
    items = []
    if shard[0] == 'grids':
        items = list(x86space.sib_grid(tier)) + list(x86space.disp_grid(tier))
    elif shard[0] == 'cells':
        for cell in cl:
            for b, cls in x86space.strings_for_cell(cell, tier, seed, prefixes=x86space.STD_PREFIXES, sibs=x86space.SIB_QUICK[:4] if tier == 'quick' else x86space.SIB_QUICK + x86space.SIB_ALL64[::5],
                                                    nfill=0 if tier == 'quick' else 2):
                items.append((b, cls))
    else:
        modrms = (0x00, 0x05, 0x44, 0x84, 0xc1, 0xd8, 0xf9, 0x24)
        pf = [b'\x67', b'\xf2', b'\xf3', b'\xf0', b'\x64', b'\x2e', b'\x66\x67', b'\x26', b'\x36', b'\x3e', b'\x65', b'\x64\xf2', b'\x64\xf3', b'\x2e\x66', b'\x66\xf2']
        for cell in cl:
            for b, cls in x86space.strings_for_cell(cell, 'quick', seed, prefixes=pf, modrms=modrms, sibs=[0x24, 0x65], nfill=0):
                items.append((b, cls))
    for i in range(0, len(items), 15000):
        analyse(sh, items[i:i + 15000])
    return sh


def replay(w):
    sh = common.Shard()
    b = bytes.fromhex(w['bytes'])
    analyse(sh, [(b + b'\x00' * 4, ((9, 9), '', 0, 0, None, 'replay'))])
    return [(v['key'], v['detail']) for v in sh.violations]
