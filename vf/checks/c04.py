"""C04 - lifted x86 semantics match the processor on the integer core.

Reference-model monitor with the host CPU as the reference: every instruction instance
(assembled by GNU as, not by miasmX) is executed for one single step by a ptrace-driven 32-bit
tracee from a generated initial state; the same bytes are decoded and lifted by miasmX and the
assignment list is executed by the independent IR interpreter on the same state (all sources
on the pre-state). Registers, architecturally defined flags, written memory bytes and the
control-flow outcome are compared.
"""
import re
import struct
from vf import common, irsem, exprgen, gnuref, cpuoracle as O
from vf.checks.c17 import Virt

PROPERTY = 'C04'
RULE = ('instruction instances of the integer core produced by GNU as from a table (mov/movzx/movsx/lea/xchg/xadd/cmpxchg/bswap, add adc sub sbb cmp neg inc dec, and or xor not test, '
        'shl sal shr sar rol ror rcl rcr with count classes {0,1,2..n-1,n,>n,31,32+,cl}, shld/shrd, mul imul(1/2/3 operands) div idiv, bt/bts/btr/btc (register and memory bit-string forms), '
        'bsf/bsr, cbw/cwde/cwd/cdq, lahf/sahf, clc/stc/cmc/cld/std, setcc/cmovcc/jcc for all 16 conditions, jmp/call/ret (direct, indirect), loop/loope/loopne/jecxz, push/pop (reg, mem, imm), '
        'pushf/popf, pusha/popa, enter/leave, movs/cmps/scas/lods/stos (b/w/d, one iteration, both directions), xlat, aaa..das) x operand size 8/16/32 x operand form (reg,reg / reg,imm / reg,mem / '
        'mem,reg / mem,imm; high byte registers; esp/ebp bases; SIB) x states (registers and flags from the boundary set {0,1,2^k-1,2^k,sign bit,all ones} and random; random memory; %d states per '
        'instance quick, %d thorough). A case = (instance, state); non-trivial = the CPU executed the step without fault and at least one compared location is architecturally defined.')
RULE += ' Round 6: 16-bit addressing runs on the CPU as well (the tracee maps low pages and the last page of the first 64K): ALU, mov, shift, movzx, xchg, setcc/cmovcc, push/pop/call/jmp through [bx+si]-style operands, xlat and the five string instructions with si/di, with garbage in the upper register halves, wrapping sums and pointers stepping across 0xffff; meaning-free address-size prefixes on call/push/pop/ret/pushf/leave/jmp/jecxz/loop.'
RULE += ' Round 7: 16-bit code-segment twins: every register-only row is also decoded with attrib opmode/admode u16 from the bytes that mean the same instruction there (66 removed or added); its lifted semantics must agree, on generated states, with the 32-bit decoding that the CPU comparison covers.'
RULE += ' Round 8: segment registers pushed without prefix, under 66 and under 67 (esp and the written window compared, not the selector); rows that carry their own bytes for a size prefix given twice (67 67, 66 66, 66 67 66) on memory, string, xlat and loop forms; the 16-bit code-segment twins now include the memory-operand rows (66 and 67 both exchanged) and compare written memory.'
RULE += ' Round 9: bit-string forms are keyed by the class of the run-time bit offset (negative, inside the operand, beyond it).'
RULE += ' Round 10: for every row, an instruction object equal to the decoded one (pickle round trip; decode with configuration strings built at run time) must lift to the same assignment list.'
RULE += ' Round 10: the table rows are also EXECUTED in a 16-bit code segment (the tracee installs an LDT code descriptor with D=0 over the flat address space; stack and data segments stay flat 32-bit): the bytes that mean the row there (66 and 67 exchanged; loop/jcxz count register follows 67) are decoded with attrib opmode/admode u16 at the code address, lifted and compared with one CPU step - registers, flags, memory, pushed return addresses, and the instruction pointer including its truncation to 16 bits by transfers with 16-bit operand size; stack, call/ret/jmp/jcc/loop, enter/leave rows included (keys cs16/...).'
RULE += " Round 9: far returns (retf, retf n, with and without 66) to the tracee's own code selector; eip, esp and cs compared."
ASSUMPTIONS = ['the host CPU (single-stepped through Linux ptrace) is "an x86 processor"; faulting steps are excluded', 'the table of architecturally undefined results below is transcribed from the SDM',
               'vf/irsem.py gives the standard bit-vector meaning of the IR; memory is flat (segment annotations ignored)',
               'direct branches are compared by taken/not-taken (the lifter leaves the raw displacement as target; the architectural target is C17)']

CC = ['o', 'no', 'b', 'ae', 'e', 'ne', 'be', 'a', 's', 'ns', 'p', 'np', 'l', 'ge', 'le', 'g']
CC_ALIASES = {'b': ['c', 'nae'], 'ae': ['nb', 'nc'], 'e': ['z'], 'ne': ['nz'], 'be': ['na'], 'a': ['nbe'], 'p': ['pe'], 'np': ['po'], 'l': ['nge'], 'ge': ['nl'], 'le': ['ng'], 'g': ['nle']}
R = {8: ['al', 'cl', 'dl', 'bl', 'ah', 'ch', 'dh', 'bh'], 16: ['ax', 'cx', 'dx', 'bx', 'bp', 'si', 'di'], 32: ['eax', 'ecx', 'edx', 'ebx', 'ebp', 'esi', 'edi']}
KW = {8: 'BYTE PTR', 16: 'WORD PTR', 32: 'DWORD PTR'}
# memory operand templates: (text, base registers, index registers)
MEMS = [('[esi]', ['esi'], []), ('[edi+8]', ['edi'], []), ('[ebx+ecx*4+4]', ['ebx'], ['ecx']), ('[ebp-4]', ['ebp'], []), ('[esp+4]', ['esp'], []), ('[eax+edx*1]', ['eax'], ['edx'])]


def instances():
    """Deterministic list of (text, mnemonic, size, form, class, base regs, index regs, extra)."""
    out = []

    def add(text, mn, size, form, cls='-', bases=(), idx=(), **extra):
        out.append(dict(text=text, mn=mn, size=size, form=form, cls=cls, bases=list(bases), idx=list(idx), extra=extra))

    def mems(size, k):
        t, b, i = MEMS[k % len(MEMS)]
        return '%s %s' % (KW[size], t), b, i
    k = 0
    for mn in ('add', 'adc', 'sub', 'sbb', 'cmp', 'and', 'or', 'xor', 'test', 'mov'):
        for size in (8, 16, 32):
            rs = R[size]
            add('%s %s, %s' % (mn, rs[0], rs[1]), mn, size, 'r,r')
            add('%s %s, %s' % (mn, rs[3], rs[3]), mn, size, 'r,r-same')
            if size == 8:
                add('%s ah, bl' % mn, mn, 8, 'r,r-high'); add('%s al, ah' % mn, mn, 8, 'r,r-high2'); add('%s dh, ch' % mn, mn, 8, 'r,r-high3')
            for v in (0, 1, -1, 0x7f, 0x80, (1 << (size - 1)) - 1, 1 << (size - 1)):
                if -(1 << (size - 1)) <= v < (1 << size):
                    add('%s %s, %d' % (mn, rs[2], v), mn, size, 'r,i', 'imm=%d' % v)
            add('%s %s, 0x12' % (mn, rs[0]), mn, size, 'acc,i')
            for j in range(2):
                k += 1
                m, b, i = mems(size, k)
                add('%s %s, %s' % (mn, rs[1 + j], m), mn, size, 'r,m', bases=b, idx=i)
                if mn != 'test' or True:
                    k += 1
                    m, b, i = mems(size, k)
                    add('%s %s, %s' % (mn, m, rs[2 + j]), mn, size, 'm,r', bases=b, idx=i)
            k += 1
            m, b, i = mems(size, k)
            add('%s %s, %d' % (mn, m, 0x7f if size == 8 else 0x1234), mn, size, 'm,i', bases=b, idx=i)
            add('%s %s, -1' % (mn, m), mn, size, 'm,i', 'imm=-1', bases=b, idx=i)
    for mn in ('inc', 'dec', 'neg', 'not', 'mul', 'imul', 'div', 'idiv'):
        for size in (8, 16, 32):
            for r in R[size][:4] + ([R[size][4]] if size == 8 else []):
                add('%s %s' % (mn, r), mn, size, 'r', 'reg=' + r if mn in ('mul', 'imul', 'div', 'idiv') else '-')
            k += 1
            m, b, i = mems(size, k)
            add('%s %s' % (mn, m), mn, size, 'm', bases=b, idx=i)
    for size in (16, 32):
        rs = R[size]
        add('imul %s, %s' % (rs[1], rs[2]), 'imul', size, 'r,r')
        add('imul %s, %s' % (rs[0], rs[0]), 'imul', size, 'r,r-same')
        m, b, i = mems(size, 1)
        add('imul %s, %s' % (rs[3], m), 'imul', size, 'r,m', bases=b, idx=i)
        for v in (3, -3, 127, 1000, -1000):
            add('imul %s, %s, %d' % (rs[1], rs[2], v), 'imul', size, 'r,r,i', 'imm8' if -128 <= v < 128 else 'imm')
        add('imul %s, %s, 77' % (rs[0], m), 'imul', size, 'r,m,i', bases=b, idx=i)
    for mn in ('shl', 'sal', 'shr', 'sar', 'rol', 'ror', 'rcl', 'rcr'):
        for size in (8, 16, 32):
            rs = R[size]
            counts = sorted(set([0, 1, 2, size - 1, size, size + 1, 31, 32, 33, 0x7f, 0xff, 9, 17, 18, 16, 24, 40, 48, 0x90]))
            for c in counts:
                cls = 'count=0' if (c & 31) == 0 else ('count=1' if (c & 31) == 1 else ('count<n' if (c & 31) < size else ('count=n' if (c & 31) == size else 'count>n')))
                add('%s %s, %d' % (mn, rs[1] if size != 8 else 'dl', c), mn, size, 'r,i', cls, count=c)
            add('%s %s, cl' % (mn, rs[0]), mn, size, 'r,cl', 'cl')
            add('%s %s, cl' % (mn, rs[3]), mn, size, 'r,cl', 'cl')
            if size == 8:
                add('%s ah, cl' % mn, mn, 8, 'r,cl-high', 'cl'); add('%s ch, 3' % mn, mn, 8, 'r,i-high', 'count<n', count=3)
            m, b, i = mems(size, 0)
            add('%s %s, 1' % (mn, m), mn, size, 'm,1', 'count=1', bases=b, idx=i, count=1)
            add('%s %s, 5' % (mn, m), mn, size, 'm,i', 'count<n', bases=b, idx=i, count=5)
            m, b, i = mems(size, 1)
            add('%s %s, cl' % (mn, m), mn, size, 'm,cl', 'cl', bases=b, idx=i)
    for mn in ('shld', 'shrd'):
        for size in (16, 32):
            rs = R[size]
            for c in (0, 1, 4, size - 1, size, size + 1, 31, 32, 36):
                cm = c & 31
                cls = 'count=0' if cm == 0 else ('count=1' if cm == 1 else ('count<n' if cm < size else ('count=n' if cm == size else 'count>n')))
                add('%s %s, %s, %d' % (mn, rs[0], rs[3], c), mn, size, 'r,r,i', cls, count=c)
            add('%s %s, %s, cl' % (mn, rs[2], rs[3]), mn, size, 'r,r,cl', 'cl')
            m, b, i = mems(size, 0)
            add('%s %s, %s, 3' % (mn, m, rs[1]), mn, size, 'm,r,i', 'count<n', bases=b, idx=i, count=3)
            add('%s %s, %s, cl' % (mn, m, rs[3]), mn, size, 'm,r,cl', 'cl', bases=b, idx=i)
    for mn in ('movzx', 'movsx'):
        add('%s eax, bl' % mn, mn, 32, 'r32,r8'); add('%s ecx, ah' % mn, mn, 32, 'r32,r8-high'); add('%s edx, si' % mn, mn, 32, 'r32,r16'); add('%s bx, cl' % mn, mn, 16, 'r16,r8')
        add('%s eax, al' % mn, mn, 32, 'r32,r8-same')
        add('%s eax, BYTE PTR [esi]' % mn, mn, 32, 'r32,m8', bases=['esi']); add('%s edi, WORD PTR [ebx+ecx*4+4]' % mn, mn, 32, 'r32,m16', bases=['ebx'], idx=['ecx'])
        add('%s cx, BYTE PTR [edi+8]' % mn, mn, 16, 'r16,m8', bases=['edi'])
    for t, b, i in MEMS:
        add('lea eax, %s' % t, 'lea', 32, 'r32,m')
        add('lea cx, %s' % t, 'lea', 16, 'r16,m')
    add('lea esp, [esp+8]', 'lea', 32, 'esp'); add('lea ebx, [ebx+ebx*8+0x12345678]', 'lea', 32, 'scaled')
    # 16-bit effective addresses (address-size prefix): the address wraps at 16 bits and is zero-extended into a 32-bit destination
    for t in ('[bx+si]', '[bx+di+0x10]', '[bp+si-0x80]', '[bp+di+0x7000]', '[si+0x8000]', '[di-1]', '[bx+0x1234]', '[bp+0]'):
        add('lea eax, %s' % t, 'lea', 32, 'r32,m16addr')
        add('lea dx, %s' % t, 'lea', 16, 'r16,m16addr')
    for mn in ('xchg', 'xadd', 'cmpxchg'):
        for size in (8, 16, 32):
            rs = R[size]
            add('%s %s, %s' % (mn, rs[1], rs[2]), mn, size, 'r,r')
            add('%s %s, %s' % (mn, rs[0], rs[3]), mn, size, 'acc,r' if mn == 'xchg' else 'r,r-acc')
            add('%s %s, %s' % (mn, rs[2], rs[2]), mn, size, 'r,r-same')
            if size == 8:
                add('%s al, ah' % mn, mn, 8, 'r,r-sameparent'); add('%s bh, bl' % mn, mn, 8, 'r,r-sameparent2')
            m, b, i = mems(size, 0)
            add('%s %s, %s' % (mn, m, rs[3]), mn, size, 'm,r', bases=b, idx=i)
            if mn == 'xchg':
                add('%s %s, %s' % (mn, rs[1], m), mn, size, 'r,m', bases=b, idx=i)
    for r in ('eax', 'ebx', 'edi'):
        add('bswap %s' % r, 'bswap', 32, 'r')
    for mn in ('bt', 'bts', 'btr', 'btc'):
        for size in (16, 32):
            rs = R[size]
            add('%s %s, %s' % (mn, rs[0], rs[1]), mn, size, 'r,r')
            for c in (0, 1, size - 1, size, 35, 255):
                add('%s %s, %d' % (mn, rs[2], c), mn, size, 'r,i', 'bit<n' if c < size else 'bit>=n')
            m, b, i = mems(size, 0)
            add('%s %s, %s' % (mn, m, rs[3]), mn, size, 'm,r', 'bitstring', bases=b, idx=i, bitreg=rs[3])
            add('%s %s, 17' % (mn, m), mn, size, 'm,i', bases=b, idx=i)
    for mn in ('bsf', 'bsr'):
        for size in (16, 32):
            rs = R[size]
            add('%s %s, %s' % (mn, rs[0], rs[1]), mn, size, 'r,r'); add('%s %s, %s' % (mn, rs[2], rs[2]), mn, size, 'r,r-same')
            m, b, i = mems(size, 1)
            add('%s %s, %s' % (mn, rs[3], m), mn, size, 'r,m', bases=b, idx=i)
    for t in ('cbw', 'cwde', 'cwd', 'cdq', 'lahf', 'sahf', 'clc', 'stc', 'cmc', 'cld', 'std', 'nop', 'aaa', 'aas', 'daa', 'das', 'aam', 'aad', 'aam 7', 'aad 7', 'xlat'):
        add(t, t.split()[0], 8, 'none', bases=['ebx'] if t == 'xlat' else [], xlat=(t == 'xlat'))
    for ci, cc in enumerate(CC):
        for name in [cc] + CC_ALIASES.get(cc, []):
            add('set%s al' % name, 'set' + cc, 8, 'r8', 'cc=' + cc); add('set%s dh' % name, 'set' + cc, 8, 'r8-high', 'cc=' + cc)
            add('set%s BYTE PTR [esi]' % name, 'set' + cc, 8, 'm8', 'cc=' + cc, bases=['esi'])
            add('cmov%s eax, ebx' % name, 'cmov' + cc, 32, 'r,r', 'cc=' + cc); add('cmov%s cx, dx' % name, 'cmov' + cc, 16, 'r,r', 'cc=' + cc)
            add('cmov%s edx, DWORD PTR [edi+8]' % name, 'cmov' + cc, 32, 'r,m', 'cc=' + cc, bases=['edi'])
            add('j%s .+0x20' % name, 'j' + cc, 32, 'rel8', 'cc=' + cc, branch='direct'); add('j%s .+0x1234' % name, 'j' + cc, 32, 'rel32', 'cc=' + cc, branch='direct')
            add('j%s .-0x10' % name, 'j' + cc, 32, 'rel8-back', 'cc=' + cc, branch='direct')
    add('jmp .+0x20', 'jmp', 32, 'rel8', branch='direct'); add('jmp .+0x12345', 'jmp', 32, 'rel32', branch='direct'); add('jmp .-0x30', 'jmp', 32, 'rel8-back', branch='direct')
    add('jmp eax', 'jmp', 32, 'r', branch='indirect'); add('jmp DWORD PTR [esi]', 'jmp', 32, 'm', bases=['esi'], branch='indirect'); add('jmp DWORD PTR [ebx+ecx*4+4]', 'jmp', 32, 'm-sib', bases=['ebx'], idx=['ecx'], branch='indirect')
    add('call .+0x40', 'call', 32, 'rel32', branch='direct', stack=True); add('call edx', 'call', 32, 'r', branch='indirect', stack=True)
    add('call DWORD PTR [edi+8]', 'call', 32, 'm', bases=['edi'], branch='indirect', stack=True); add('call esp', 'call', 32, 'r-esp', branch='indirect', stack=True)
    add('ret', 'ret', 32, 'none', branch='indirect', stack=True); add('ret 8', 'ret', 32, 'i', branch='indirect', stack=True); add('ret 0x100', 'ret', 32, 'i', branch='indirect', stack=True)
    for mn in ('loop', 'loope', 'loopne', 'jecxz'):
        add('%s .+0x10' % mn, mn, 32, 'rel8', 'ecx-class', branch='direct'); add('%s .-0x20' % mn, mn, 32, 'rel8-back', 'ecx-class', branch='direct')
    for r in ('eax', 'ebx', 'ebp', 'esp', 'esi'):
        add('push %s' % r, 'push', 32, 'r' if r != 'esp' else 'r-esp', stack=True); add('pop %s' % r, 'pop', 32, 'r' if r != 'esp' else 'r-esp', stack=True)
    add('push cx', 'push', 16, 'r', stack=True); add('pop dx', 'pop', 16, 'r', stack=True)
    add('push DWORD PTR [esi]', 'push', 32, 'm', bases=['esi'], stack=True); add('pop DWORD PTR [edi+8]', 'pop', 32, 'm', bases=['edi'], stack=True)
    add('push DWORD PTR [esp+4]', 'push', 32, 'm-esp', stack=True); add('pop DWORD PTR [esp+4]', 'pop', 32, 'm-esp', stack=True)
    add('push WORD PTR [esi]', 'push', 16, 'm', bases=['esi'], stack=True)
    for v in (0, 1, -1, 127, -128, 128, 0x12345678, -0x80000000):
        add('push %d' % v, 'push', 32, 'i', 'imm8' if -128 <= v < 128 else 'imm32', stack=True)
    add('pushfd', 'pushf', 32, 'none', stack=True); add('popfd', 'popf', 32, 'none', stack=True, popf=True); add('pushfw', 'pushf', 16, 'none', stack=True)
    add('pushad', 'pusha', 32, 'none', stack=True); add('popad', 'popa', 32, 'none', stack=True); add('pushaw', 'pusha', 16, 'none', stack=True); add('popaw', 'popa', 16, 'none', stack=True)
    add('enter 8, 0', 'enter', 32, 'i,0', stack=True); add('enter 0, 0', 'enter', 32, 'i,0', stack=True); add('enter 16, 1', 'enter', 32, 'i,1', stack=True)
    add('leave', 'leave', 32, 'none', stack=True, bases=['ebp'])
    for mn in ('movs', 'cmps', 'scas', 'lods', 'stos'):
        for sfx, size in (('b', 8), ('w', 16), ('d', 32)):
            add('%s%s' % (mn, sfx), mn, size, 'none', 'string', bases=['esi', 'edi'], string=True)
    # ---- 16-bit addressing (address-size prefix) on the CPU: the tracee maps low pages, so [bx+si] and friends are executable.
    # The upper halves of the address registers hold garbage that must not matter, sums wrap at 16 bits.
    k = 0
    for mn in ('mov', 'add', 'cmp', 'xor', 'sbb', 'test'):
        for size in (8, 16, 32):
            rs = R[size]
            for form in ('r,m', 'm,r'):
                k += 1
                t, b, i = MEMS16[k % len(MEMS16)]
                ops = ('%s, %s %s' % (rs[1], KW[size], t)) if form == 'r,m' else ('%s %s, %s' % (KW[size], t, rs[2]))
                add('%s %s' % (mn, ops), mn, size, form + '16addr', low=True, bases16=b, idx16=i)
    for j, (t, b, i) in enumerate(MEMS16):
        size = (8, 16, 32)[j % 3]
        add('inc %s %s' % (KW[size], t), 'inc', size, 'm16addr', low=True, bases16=b, idx16=i)
        add('neg %s %s' % (KW[size], t), 'neg', size, 'm16addr', low=True, bases16=b, idx16=i)
        add('mov %s %s, %d' % (KW[size], t, 0x5a), 'mov', size, 'm,i16addr', low=True, bases16=b, idx16=i)
        add('shl %s %s, 3' % (KW[size], t), 'shl', size, 'm,i16addr', 'count<n', low=True, bases16=b, idx16=i, count=3)
        add('movzx eax, BYTE PTR %s' % t, 'movzx', 32, 'r32,m8-16addr', low=True, bases16=b, idx16=i)
        add('xchg %s %s, %s' % (KW[size], t, R[size][3 if 'bx' not in t else 1]), 'xchg', size, 'm,r16addr', low=True, bases16=b, idx16=i)
    add('push DWORD PTR [bx+si]', 'push', 32, 'm16addr', low=True, bases16=['ebx'], idx16=['esi'], stack=True)
    add('pop DWORD PTR [di-1]', 'pop', 32, 'm16addr', low=True, bases16=['edi'], idx16=[], stack=True)
    add('push WORD PTR [bp+si-0x20]', 'push', 16, 'm16addr', low=True, bases16=['ebp'], idx16=['esi'], stack=True)
    add('jmp DWORD PTR [bx+0x12]', 'jmp', 32, 'm16addr', low=True, bases16=['ebx'], idx16=[], branch='indirect')
    add('call DWORD PTR [si+0x40]', 'call', 32, 'm16addr', low=True, bases16=['esi'], idx16=[], branch='indirect', stack=True)
    add('xlat BYTE PTR ds:[bx]', 'xlat', 8, 'none16addr', low=True, bases16=['ebx'], idx16=[], xlat=True)
    for cc in ('e', 'b'):
        add('set%s BYTE PTR [bx+di+0x10]' % cc, 'set' + cc, 8, 'm8-16addr', 'cc=' + cc, low=True, bases16=['ebx'], idx16=['edi'])
        add('cmov%s edx, DWORD PTR [si+0x40]' % cc, 'cmov' + cc, 32, 'r,m16addr', 'cc=' + cc, low=True, bases16=['esi'], idx16=[])
    for sfx, size in (('b', 8), ('w', 16), ('d', 32)):
        kw = KW[size]
        acc = {8: 'al', 16: 'ax', 32: 'eax'}[size]
        add('movs %s es:[di], %s ds:[si]' % (kw, kw), 'movs', size, 'none16addr', 'string', low=True, bases16=['esi', 'edi'], idx16=[], string=True)
        add('cmps %s ds:[si], %s es:[di]' % (kw, kw), 'cmps', size, 'none16addr', 'string', low=True, bases16=['esi', 'edi'], idx16=[], string=True)
        add('scas %s, %s es:[di]' % (acc, kw), 'scas', size, 'none16addr', 'string', low=True, bases16=['edi'], idx16=[], string=True)
        add('lods %s, %s ds:[si]' % (acc, kw), 'lods', size, 'none16addr', 'string', low=True, bases16=['esi'], idx16=[], string=True)
        add('stos %s es:[di], %s' % (kw, acc), 'stos', size, 'none16addr', 'string', low=True, bases16=['edi'], idx16=[], string=True)
    # ---- far returns to the tracee's own code segment (and, in C08's probes, to the 64-bit one): return address and selector popped
    add('retf', 'retf', 32, 'none', branch='indirect', stack=True, farret=4)
    add('retf 8', 'retf', 32, 'i', branch='indirect', stack=True, farret=4)
    add('data16 retf', 'retf', 16, 'none+66', branch='indirect', stack=True, farret=2)
    add('data16 retf 4', 'retf', 16, 'i+66', branch='indirect', stack=True, farret=2)
    add('data16 ret', 'ret', 16, 'none+66', branch='indirect', stack=True); add('data16 ret 4', 'ret', 16, 'i+66', branch='indirect', stack=True)
    # ---- a size prefix given twice is still one prefix (bytes given directly: GNU as does not emit them)
    add('dup67 mov eax, DWORD PTR [bx]', 'mov', 32, 'r,m16addr', low=True, bases16=['ebx'], idx16=[], code='67678b07')
    add('dup67 mov DWORD PTR [bx+si], ebx', 'mov', 32, 'm,r16addr', low=True, bases16=['ebx'], idx16=['esi'], code='67678918')
    add('dup67 add BYTE PTR [di-1], cl', 'add', 8, 'm,r16addr', low=True, bases16=['edi'], idx16=[], code='6767004dff')
    add('dup67 movs BYTE PTR es:[di], BYTE PTR ds:[si]', 'movs', 8, 'none16addr', 'string', low=True, bases16=['esi', 'edi'], idx16=[], string=True, code='6767a4')
    add('dup67 scas eax, DWORD PTR es:[di]', 'scas', 32, 'none16addr', 'string', low=True, bases16=['edi'], idx16=[], string=True, code='6767af')
    add('dup67 xlat BYTE PTR ds:[bx]', 'xlat', 8, 'none16addr', low=True, bases16=['ebx'], idx16=[], xlat=True, code='6767d7')
    add('dup66 add ax, bx', 'add', 16, 'r,r+dup66', code='666601d8')
    add('dup66 inc cx', 'inc', 16, 'r+dup66', code='666641')
    add('dup66-67 mov ax, WORD PTR [bx]', 'mov', 16, 'r,m16addr', low=True, bases16=['ebx'], idx16=[], code='6667668b07')
    add('dup67 loop .+0x10', 'loop', 32, 'rel8+67', 'ecx-class', branch='direct', code='6767e20d')
    # ---- segment registers pushed with either size prefix (the slot size follows the operand size, never the address size); the
    # selector value itself is the tracee's and is not compared
    for sr in ('ds', 'es', 'ss', 'cs', 'fs', 'gs'):
        add('push %s' % sr, 'push', 32, 'sreg', stack=True, segpush=True)
        add('data16 push %s' % sr, 'push', 16, 'sreg+66', stack=True, segpush=True)
        add('addr16 push %s' % sr, 'push', 32, 'sreg+67', stack=True, segpush=True)
    # ---- prefixes that do not change what a stack or control-transfer instruction does (address size never sizes the stack slot)
    for t, mn, form, extra in (('addr16 call .+0x40', 'call', 'rel32+67', dict(branch='direct', stack=True)), ('addr16 push eax', 'push', 'r+67', dict(stack=True)),
                               ('addr16 pop ebx', 'pop', 'r+67', dict(stack=True)), ('addr16 ret', 'ret', 'none+67', dict(branch='indirect', stack=True)),
                               ('addr16 pushfd', 'pushf', 'none+67', dict(stack=True)), ('addr16 leave', 'leave', 'none+67', dict(stack=True)),
                               ('addr16 push 0x12345678', 'push', 'i+67', dict(stack=True)), ('addr16 call edx', 'call', 'r+67', dict(branch='indirect', stack=True)),
                               ('addr16 jmp .+0x20', 'jmp', 'rel8+67', dict(branch='direct')), ('addr16 add eax, ebx', 'add', 'r,r+67', {}), ('addr16 jecxz .+0x10', 'jecxz', 'rel8+67', dict(branch='direct')),
                               ('addr16 loop .+0x10', 'loop', 'rel8+67', dict(branch='direct')), ('addr16 loope .-0x20', 'loope', 'rel8-back+67', dict(branch='direct')),
                               ('addr16 loopne .+0x10', 'loopne', 'rel8+67', dict(branch='direct'))):
        add(t, mn, 32, form, 'ecx-class' if mn in ('jecxz', 'loop', 'loope', 'loopne') else '-', bases=['ebp'] if mn == 'leave' else [], **extra)
    return out


MEMS16 = [('[bx+si]', ['ebx'], ['esi']), ('[bx+di+0x10]', ['ebx'], ['edi']), ('[bp+si-0x20]', ['ebp'], ['esi']), ('[bp+di+8]', ['ebp'], ['edi']),
          ('[si+0x40]', ['esi'], []), ('[di-1]', ['edi'], []), ('[bx+0x12]', ['ebx'], []), ('[bp+0]', ['ebp'], [])]


# architecturally undefined results (SDM): mnemonic -> function(instance, count) -> set of flags, and register-undefined predicate
LOGIC = ('and', 'or', 'xor', 'test')


def masked_count(inst, regs):
    c = inst['extra'].get('count')
    if inst['cls'] == 'cl' or c is None and inst['form'].endswith('cl'):
        c = regs['ecx'] & 0xff
    if c is None:
        return None
    return c & 31


def undefined_flags(inst, regs, pre):
    mn, size = inst['mn'], inst['size']
    if mn in LOGIC:
        return {'af'}
    if mn in ('mul', 'imul'):
        return {'nf', 'zf', 'af', 'pf'}
    if mn in ('div', 'idiv'):
        return {'cf', 'of', 'nf', 'zf', 'af', 'pf'}
    if mn in ('shl', 'sal', 'shr', 'sar'):
        c = masked_count(inst, regs)
        if c == 0:
            return set()
        u = {'af'}
        if c != 1:
            u.add('of')
        if c >= size and mn in ('shl', 'sal', 'shr'):
            u.add('cf')
        if c > size and mn == 'sar':
            pass
        return u
    if mn in ('rol', 'ror', 'rcl', 'rcr'):
        c = masked_count(inst, regs)
        if c == 0:
            return set()
        u = set()
        if c != 1:
            u.add('of')
        if mn in ('rcl', 'rcr'):
            cm = c % (size + 1)
            if cm != 1:
                u.add('of')
        else:
            if c % size == 0:
                pass
        return u
    if mn in ('shld', 'shrd'):
        c = masked_count(inst, regs)
        if c == 0:
            return set()
        u = {'af'}
        if c != 1:
            u.add('of')
        if c > size:
            u |= {'cf', 'of', 'nf', 'zf', 'af', 'pf'}
        return u
    if mn in ('bt', 'bts', 'btr', 'btc'):
        return {'of', 'nf', 'af', 'pf'}
    if mn in ('bsf', 'bsr'):
        return {'cf', 'of', 'nf', 'af', 'pf'}
    if mn in ('aaa', 'aas'):
        return {'of', 'nf', 'zf', 'pf'}
    if mn in ('aam', 'aad'):
        return {'of', 'af', 'cf'}
    if mn in ('daa', 'das'):
        return {'of'}
    return set()


def result_undefined(inst, regs, mem_src_zero):
    """Is the destination itself architecturally undefined for this state?"""
    mn, size = inst['mn'], inst['size']
    if mn in ('bsf', 'bsr'):
        return mem_src_zero
    if mn in ('shld', 'shrd'):
        c = masked_count(inst, regs)
        return c is not None and c > size
    return False


BOUNDARY32 = [0, 1, 2, 0x7f, 0x80, 0xff, 0x100, 0x7fff, 0x8000, 0xffff, 0x10000, 0x7fffffff, 0x80000000, 0xffffffff, 0xfffffffe, 0x55555555, 0xaaaaaaaa, 0x0000ffff, 0xffff0000, 31, 32, 33, 16, 15, 17, 8, 9, 7]


def assemble(insts):
    """GNU as encodings of the table rows; rows that carry their own bytes (forms GNU as refuses to emit, such as a repeated
    prefix) are taken as given."""
    idx = [k for k, i in enumerate(insts) if not i['extra'].get('code')]
    res = gnuref.gas([insts[k]['text'] for k in idx], 'intel') if idx else []
    out = [None] * len(insts)
    for k, r in zip(idx, res):
        out[k] = r
    for k, i in enumerate(insts):
        if i['extra'].get('code'):
            out[k] = (bytes.fromhex(i['extra']['code']), '')
    return out


def hot_base(inst, regs):
    """Where the 1024 hot bytes live for this state: the normal data page, the low window (16-bit addressing), or - for string
    instructions whose 16-bit pointer sits just below 0x10000 - the top of the first 64K."""
    if not inst['extra'].get('low'):
        return O.HOT_ADDR
    if inst['extra'].get('string') and (regs[inst['extra']['bases16'][0]] & 0xffff) >= O.TOP_HOT_ADDR:
        return O.TOP_HOT_ADDR
    return O.LOW_HOT_ADDR


def low_kind(inst, regs):
    hb = hot_base(inst, regs)
    return 'top' if hb == O.TOP_HOT_ADDR else (hb == O.LOW_HOT_ADDR)


def make_state(inst, rng, k):
    """Initial state: dict regs, flags dict, hot bytes."""
    regs = {}
    for r in O.REGS:
        x = rng.random()
        if x < 0.55:
            regs[r] = rng.choice(BOUNDARY32)
        else:
            regs[r] = rng.getrandbits(32)
    # k-th state of an instance sweeps boundary values through the first registers deterministically
    if k < len(BOUNDARY32):
        regs['eax'] = BOUNDARY32[k]
        regs['ebx'] = BOUNDARY32[(k * 7 + 3) % len(BOUNDARY32)]
        regs['edx'] = BOUNDARY32[(k * 5 + 1) % len(BOUNDARY32)]
        regs['ecx'] = BOUNDARY32[(k * 3 + 2) % len(BOUNDARY32)]
    mid = O.HOT_ADDR + 512
    regs['esp'] = mid + 4 * rng.randrange(-8, 8)
    for b in inst['bases']:
        regs[b] = mid + 64 * rng.choice((-2, -1, 1, 2)) + rng.randrange(0, 16)
    for i in inst['idx']:
        regs[i] = rng.randrange(0, 8)
    if 'esp' in inst['bases']:
        regs['esp'] = mid + 4 * rng.randrange(-8, 8)
    if inst['mn'] == 'leave':
        regs['ebp'] = mid + 4 * rng.randrange(-8, 8)
    if inst['extra'].get('bitreg'):
        # bit-string forms: keep the bit offset small so that the addressed dword stays in the hot region
        name = inst['extra']['bitreg']
        parent = {'ax': 'eax', 'cx': 'ecx', 'dx': 'edx', 'bx': 'ebx', 'bp': 'ebp', 'si': 'esi', 'di': 'edi'}.get(name, name)
        v = rng.choice((0, 1, 15, 16, 31, 32, 33, 100, 255, -1, -32, -33, -100)) if inst['size'] == 32 else rng.choice((0, 1, 15, 16, 17, 100, 0xffff, 0xffe0))
        regs[parent] = (v & 0xffffffff) if inst['size'] == 32 else ((regs[parent] & 0xffff0000) | (v & 0xffff))
    if inst['cls'] == 'ecx-class':
        regs['ecx'] = rng.choice((0, 1, 2, 0x10000, 0xffffffff, 0x80000000, rng.getrandbits(32), 0x00050001, 0xffff0001, 0x00010002, 0x7fff0000, 0x0001ffff))
    if inst['mn'] in ('div', 'idiv') and rng.random() < 0.7:
        # make non-faulting divisions frequent: small dividend high part
        regs['edx'] = rng.choice((0, 0, 1, 0xffffffff)) if inst['size'] == 32 else ((regs['edx'] & 0xffff0000) | rng.choice((0, 0, 1, 0xffff)))
        if inst['size'] == 8:
            regs['eax'] = (regs['eax'] & 0xffff0000) | rng.getrandbits(12)
    hb = O.LOW_HOT_ADDR if inst['extra'].get('low') else O.HOT_ADDR
    if inst['extra'].get('low'):
        lowmid = O.LOW_HOT_ADDR + 512
        regs['esp'] = lowmid + 4 * rng.randrange(-8, 8)
        b16, i16 = inst['extra']['bases16'], inst['extra']['idx16']
        for b in b16:
            regs[b] = (rng.getrandbits(16) << 16) | (lowmid + 64 * rng.choice((-2, -1, 1, 2)) + rng.randrange(0, 16))
        for i in i16:
            regs[i] = (rng.getrandbits(16) << 16) | rng.randrange(0, 8)
        if b16 and i16 and k % 3 == 0:
            # the 16-bit sum wraps: base near the top of the segment, index brings it back into the window
            target = regs[b16[0]] & 0xffff
            hi = 0xff00 + rng.randrange(0, 0x100)
            regs[b16[0]] = (regs[b16[0]] & 0xffff0000) | hi
            regs[i16[0]] = (regs[i16[0]] & 0xffff0000) | ((target - hi) & 0xffff)
        if inst['extra'].get('xlat'):
            regs['eax'] = (regs['eax'] & 0xffffff00) | rng.randrange(0, 64)
        wrap_string = inst['extra'].get('string') and k % 4 == 1
        if wrap_string:
            # the pointers sit on the last element below 0x10000 and step across the 16-bit wrap (DF=0 is forced below)
            for b in b16:
                regs[b] = (regs[b] & 0xffff0000) | (0x10000 - inst['size'] // 8)
            hb = O.TOP_HOT_ADDR
    flags = dict((f, rng.getrandbits(1)) for f in O.ARITH_FLAGS)
    if k < 8:
        flags['cf'], flags['zf'], flags['df'] = k & 1, (k >> 1) & 1, (k >> 2) & 1
    if inst['extra'].get('low') and inst['extra'].get('string') and k % 4 == 1:
        flags['df'] = 0
    hot = bytearray(rng.getrandbits(8) for _ in range(O.HOT))
    if rng.random() < 0.3:
        for j in range(O.HOT):
            hot[j] = rng.choice((0, 0xff, 0x80, 0x7f, 1))
    if inst['extra'].get('popf'):
        # the popped image may only set status flags and DF (no TF/IF/NT/AC/ID changes)
        off = regs['esp'] - hb
        v = 0x202 | O.pack_eflags(dict((f, rng.getrandbits(1)) for f in O.ARITH_FLAGS))
        hot[off:off + 4] = struct.pack('<I', v)
    if inst['extra'].get('farret'):
        off = regs['esp'] - hb
        k_ = inst['extra']['farret']
        hot[off + k_:off + k_ + 2] = struct.pack('<H', 0x23)       # the tracee's 32-bit user code selector
    if inst['form'] in ('m', 'm-sib') and inst['mn'] in ('jmp', 'call') or inst['mn'] == 'ret':
        pass   # targets are arbitrary: the step is taken, only the new eip is read
    return regs, flags, bytes(hot)


def lifted_outcome(ins, regs, flags, hot, hb=None):
    """Run the lifted semantics on the state with the independent interpreter."""
    from miasmx.tools import emul_helper
    env = irsem.Env(seed='c04')
    for r in O.REGS:
        env.ids[r] = regs[r]
    for f, v in flags.items():
        env.ids[f] = v
    env.ids.update({'tf': 0, 'i_f': 1, 'iopl_f': 0, 'nt': 0, 'rf': 0, 'vm': 0, 'ac': 0, 'vif': 0, 'vip': 0, 'i_d': 0})
    hb = O.HOT_ADDR if hb is None else hb
    for j, bt in enumerate(hot):
        env.mem[hb + j] = bt
    nxt = exprgen.Int(O.CODE_ADDR + ins.l, 32)
    affs = emul_helper.get_instr_expr(ins, nxt, [])
    env.reads = []
    new, writes = irsem.exec_assignments(affs, env)
    return new, writes, env.reads


def compare_case(sh, inst, code, ins, regs, flags, hot, cpu, keyprefix=''):
    """Returns True if compared (non-trivial)."""
    mn = inst['mn']
    wit = {'text': inst['text'], 'code': code.hex(), 'regs': regs, 'flags': flags, 'hot': hot.hex()}
    if keyprefix:
        wit['cs16'] = True
    # mechanism key: mnemonic family / operand size / destination kind (register or memory form); the operand *form* detail stays in the witness
    dkind = 'm' if inst['form'].startswith('m') else ('r' if inst['form'][:1] in ('r', 'a') else inst['form'])
    if '+67' in inst['form']:
        dkind += '+67'
    elif '16addr' in inst['form']:
        dkind = dkind.replace("16addr", "") + "+16addr"
    keybase = '%s/%d/%s' % (mn if not re.match(r'^(set|cmov|j)(' + '|'.join(CC) + ')$', mn) else re.sub(r'(set|cmov|j).*', r'\1cc', mn), inst['size'], dkind)
    hb = hot_base(inst, regs)
    try:
        new, writes, reads = lifted_outcome(ins, regs, flags, hot, hb)
    except (irsem.Undefined, irsem.Uninterpreted) as e:
        sh.counters['lifted_undefined_or_uninterpreted'] += 1
        return False
    except irsem.IllFormed as e:
        sh.counters['ill_typed_lift(C11)'] += 1
        return False
    except Exception as e:
        sh.counters['lift_raises(C11)'] += 1
        return False
    und = undefined_flags(inst, regs, None)
    # destination undefined? (bsf/bsr of zero source: decide from the value the CPU read - approximate by ZF=1 after the step)
    cpu_flags = O.unpack_eflags(cpu['eflags'])
    dst_undef = result_undefined(inst, regs, cpu_flags['zf'] == 1) if mn in ('bsf', 'bsr') else result_undefined(inst, regs, False)
    problems = []
    # registers
    for i, r in enumerate(O.REGS):
        got = new.ids.get(r, regs[r]) & 0xffffffff
        want = cpu['regs'][i]
        if got != want:
            if dst_undef:
                continue
            problems.append(('reg:' + r, '%s: lifted 0x%08x, CPU 0x%08x' % (r, got, want)))
    if inst['extra'].get('farret') and 'cs' in cpu:
        got = new.ids.get('cs')
        if got is None or (got & 0xffff) != cpu['cs']:
            problems.append(('reg:cs', 'cs: lifted %s, CPU 0x%04x' % ('unassigned' if got is None else '0x%04x' % (got & 0xffff), cpu['cs'])))
    # flags
    for f in ('cf', 'pf', 'af', 'zf', 'nf', 'of', 'df'):
        if f in und or (dst_undef and mn in ('shld', 'shrd')):
            continue
        got = new.ids.get(f, flags[f]) & 1
        if got != cpu_flags[f]:
            problems.append(('flag:' + f, '%s: lifted %d, CPU %d' % (f, got, cpu_flags[f])))
    # memory
    mism = None
    for j in range(O.HOT):
        got = new.mem.get(hb + j, hot[j])
        if got != cpu['hot'][j]:
            mism = j
            break
    if inst['extra'].get('segpush'):
        mism = None        # the pushed selector is the tracee's own; esp and the written window are compared
    if mism is not None and not dst_undef:
        image_tf = mn == 'pushf'
        if image_tf:
            # single-step artefact: the pushed image shows TF=1
            ok = True
            for j in range(O.HOT):
                got = new.mem.get(hb + j, hot[j])
                if got != cpu['hot'][j] and (got ^ cpu['hot'][j]) != 0x01:
                    ok = False
            if not ok:
                problems.append(('mem', 'memory at +0x%x: lifted %02x, CPU %02x' % (mism, new.mem.get(hb + mism, hot[mism]), cpu['hot'][mism])))
        else:
            problems.append(('mem', 'memory at hot+0x%x: lifted %02x, CPU %02x' % (mism, new.mem.get(hb + mism, hot[mism]), cpu['hot'][mism])))
    # writes outside the hot region by the lifted semantics
    for w in writes:
        if w[0] == 'mem' and not (hb <= w[1] and w[1] + w[2] <= hb + O.HOT):
            problems.append(('mem', 'lifted semantics write %d bytes at 0x%08x, outside the operand window' % (w[2], w[1])))
            break
    # control flow
    fall = O.CODE_ADDR + len(code)
    leip = new.ids.get('eip') if any(w[0] == 'id' and w[1] == 'eip' for w in writes) else fall
    br = inst['extra'].get('branch')
    if br == 'direct':
        if (leip == fall) != (cpu['eip'] == fall):
            problems.append(('eip', 'branch %s on the CPU but %s in the lifted semantics' % ('taken' if cpu['eip'] != fall else 'not taken', 'taken' if leip != fall else 'not taken')))
    else:
        if (leip & 0xffffffff) != cpu['eip']:
            problems.append(('eip', 'next eip: lifted 0x%08x, CPU 0x%08x' % (leip & 0xffffffff, cpu['eip'])))
    seen = set()
    cls = inst['cls'] if not inst['cls'].startswith('imm=') and not inst['cls'].startswith('reg=') else '-'
    if cls == 'cl':
        # class of the run-time count
        c = masked_count(inst, regs)
        size = inst['size']
        cls = 'count=0' if c == 0 else ('count=1' if c == 1 else ('count<n' if c < size else ('count=n' if c == size else 'count>n')))
    if inst['extra'].get('bitreg'):
        # bit-string forms: the known defects concern particular offset ranges (negative, beyond the operand): keep the others visible
        br = inst['extra']['bitreg']
        parent_ = {'ax': 'eax', 'cx': 'ecx', 'dx': 'edx', 'bx': 'ebx', 'bp': 'ebp', 'si': 'esi', 'di': 'edi'}.get(br, br)
        v_ = regs[parent_] & ((1 << inst['size']) - 1)
        if v_ >> (inst['size'] - 1):
            v_ -= 1 << inst['size']
        cls = 'bitstring:%s' % ('negative' if v_ < 0 else ('inside-operand' if v_ < inst['size'] else 'beyond-operand'))
    fam = keybase.split('/')[0]
    for loc, detail in problems:
        if loc.startswith('flag:'):
            key = '%s/%s/%s' % (fam + ('+67' if dkind.endswith('+67') else ('+16addr' if dkind.endswith('+16addr') else '')), loc, cls)          # flag formulas do not depend on operand size or form
        else:
            key = '%s/%s/%s' % (keybase, loc, cls)
        key = keyprefix + key
        if key in seen:
            continue
        seen.add(key)
        sh.violation(key, ('in a 16-bit code segment: ' if keyprefix else '') + '%s (%s): %s [state eax=%08x ecx=%08x edx=%08x ebx=%08x flags=%s]' % (inst['text'], code.hex(), detail, regs['eax'], regs['ecx'], regs['edx'], regs['ebx'],
                                                                                          ''.join(f for f in ('cf', 'pf', 'af', 'zf', 'nf', 'of', 'df') if flags[f])), wit)
    return True


NPARTS = 64


def shards(tier, seed):
    return [('p', p) for p in range(NPARTS)] + [('mode16', 0)] + [('cs16', p) for p in range(NCS16)]


NCS16 = 16


def mode_twins(flow=False):
    """(instance, bytes for a 32-bit code segment, bytes for a 16-bit code segment) of register-only and implicit-operand rows:
    the operand-size prefix means the opposite in the other configuration (dis(..., {'opmode': u16, 'admode': u16})), so
    X under 66 in 32-bit code and X without prefix in 16-bit code are one instruction, and so are X and 66 X."""
    out = []
    rows = [i for i in instances() if not i['extra'].get('code') and 'addr16' not in i['text']]
    if flow:
        rows = [i for i in rows if not i['extra'].get('farret')]
    else:
        rows = [i for i in rows if not i['extra'].get('stack') and not i['extra'].get('branch') and i['mn'] not in ('enter', 'leave')]
    asm = assemble(rows)
    for inst, (g, msg) in zip(rows, asm):
        if not g:
            continue
        k = 0
        while k < len(g) and g[k] in (0x66, 0x67, 0xf2, 0xf3, 0xf0, 0x26, 0x2e, 0x36, 0x3e, 0x64, 0x65):
            k += 1
        pre, rest = list(g[:k]), g[k:]
        uses_mem = bool(inst['bases'] or inst['idx'] or inst['extra'].get('low') or inst['extra'].get('string') or inst['extra'].get('xlat') or '[' in inst['text'])
        if flow and (inst['cls'] == 'ecx-class' or re.match(r'^(loop|j.?cxz)', inst['mn'])):
            uses_mem = True      # the count register of loop/jcxz follows the address size
        # operand size: 66 means the opposite; address size (only relevant with a memory operand): 67 means the opposite
        p16 = [b_ for b_ in pre if b_ not in (0x66, 0x67)]
        if 0x66 not in pre:
            p16.append(0x66)
        if uses_mem and 0x67 not in pre:
            p16.append(0x67)
        out.append((inst, g, bytes(p16) + rest))
    return out


def run_mode16(sh, tier, seed):
    from miasmx.arch.ia32_arch import x86mnemo
    from miasmx.arch.ia32_reg import x86_afs
    from miasmx.tools import emul_helper
    for inst, b32, b16 in mode_twins():
        try:
            i32 = x86mnemo.dis(b32)
            i16 = x86mnemo.dis(b16, {'opmode': x86_afs.u16, 'admode': x86_afs.u16})
        except Exception:
            i32 = i16 = None
        if i32 is None or i16 is None or i32.l != len(b32) or i16.l != len(b16):
            sh.counters['mode16_not_decoded(C01/C10)'] += 1
            continue
        try:
            a32 = emul_helper.get_instr_expr(i32, exprgen.Int(0x5000, 32), [])
        except Exception:
            sh.counters['mode16_reference_lift_raises(C11)'] += 1
            continue
        cls = '%s/%d/%s/mode16' % (inst['mn'], inst['size'], inst['form'])
        wit = {'text': inst['text'], 'code': b32.hex(), 'code16': b16.hex(), 'mode16': True}
        fam = re.sub(r'^(set|cmov)(' + '|'.join(CC) + ')$', r'\1cc', inst['mn'])
        try:
            a16 = emul_helper.get_instr_expr(i16, exprgen.Int(0x5000, 32), [])
        except Exception as e:
            sh.case(('mode16', inst['text']), True, cls=cls)
            sh.violation('mode16/%s/%d/lift-raises:%s' % (fam, inst['size'], type(e).__name__), '%s: %s lifts in 32-bit code, but %s decoded for a 16-bit code segment raises %r' % (inst['text'], b32.hex(), b16.hex(), e), wit)
            continue
        rng = common.rng_for(seed, 'C04m16', inst['text'])
        compared = 0
        bad = None
        for k in range(6 if tier == 'quick' else 40):
            regs, flags, hot = make_state(inst, rng, k)
            outs = []
            for affs in (a32, a16):
                env = irsem.Env(seed='c04m')
                for r in O.REGS:
                    env.ids[r] = regs[r]
                for f, v in flags.items():
                    env.ids[f] = v
                env.ids.update({'tf': 0, 'i_f': 1, 'iopl_f': 0, 'nt': 0, 'rf': 0, 'vm': 0, 'ac': 0, 'vif': 0, 'vip': 0, 'i_d': 0})
                try:
                    new, writes = irsem.exec_assignments(affs, env)
                    o_ = dict((w_[1], new.ids.get(w_[1])) for w_ in writes if w_[0] == 'id' and w_[1] != 'eip')
                    for w_ in writes:
                        if w_[0] == 'mem':
                            for q_ in range(w_[2]):
                                o_['mem:%08x' % ((w_[1] + q_) & 0xffffffff)] = new.mem.get((w_[1] + q_) & 0xffffffff)
                    outs.append(o_)
                except (irsem.Undefined, irsem.Uninterpreted):
                    outs.append(None)
                except irsem.IllFormed:
                    outs.append('ill-typed')
            if outs[0] is None or outs[1] is None or outs[0] == 'ill-typed':
                continue
            compared += 1
            if outs[1] == 'ill-typed':
                bad = ('ill-typed', 'the 16-bit-segment lift is ill-typed')
                break
            und = undefined_flags(inst, regs, None)
            keys = (set(outs[0]) | set(outs[1])) - set(und)
            diff = sorted(k_ for k_ in keys if outs[0].get(k_, env.ids.get(k_)) != outs[1].get(k_, env.ids.get(k_)))
            if diff and diff[0].startswith('mem:'):
                diff = ['memory'] + diff
            if diff:
                bad = ('value:' + diff[0], '%s: 32-bit code gives %s, 16-bit code gives %s [eax=%08x ecx=%08x edx=%08x ebx=%08x]' % (
                    diff[-1], outs[0].get(diff[-1]), outs[1].get(diff[-1]), regs['eax'], regs['ecx'], regs['edx'], regs['ebx']))
                break
        sh.case(('mode16', inst['text']), compared > 0, cls=cls if compared else None)
        if bad:
            sh.violation('mode16/%s/%d/%s' % (fam, inst['size'], bad[0]), '%s: %s in a 32-bit code segment and %s in a 16-bit one are the same instruction, but %s' % (inst['text'], b32.hex(), b16.hex(), bad[1]), wit)


def run_cs16(sh, part, tier, seed, only=None):
    """The table rows executed for real in a 16-bit code segment (LDT selector installed by the tracee; flat 32-bit stack and
    data segments): the bytes that mean the row's instruction there (66 / 67 exchanged) are decoded with attrib opmode/admode
    u16 at the code address, lifted, and compared with one CPU step as in the 32-bit configuration."""
    from miasmx.arch.ia32_arch import x86mnemo
    from miasmx.arch.ia32_reg import x86_afs
    from miasmx.core.bin_stream import bin_stream
    tw = [t for j, t in enumerate(mode_twins(flow=True)) if j % NCS16 == part or only]
    cases = []
    meta = []
    nstates = 8 if tier == 'quick' else 96
    for inst, b32, b16 in tw:
        if only and inst['text'] != only:
            continue
        if len(b16) > 15:
            continue
        try:
            ins = x86mnemo.dis(bin_stream(Virt(O.CODE_ADDR, b16), O.CODE_ADDR), {'opmode': x86_afs.u16, 'admode': x86_afs.u16})
        except Exception:
            ins = None
        if ins is None or ins.l != len(b16):
            sh.counters['cs16_not_decoded(C01/C10)'] += 1
            continue
        rng = common.rng_for(seed, 'C04cs16', inst['text'])
        for k in range(nstates):
            regs, flags, hot = make_state(inst, rng, k)
            cases.append(dict(code=b16, regs=[regs[r] for r in O.REGS], eflags=O.pack_eflags(flags), hot=hot, low=low_kind(inst, regs), cs16=True))
            meta.append((inst, b16, ins, regs, flags, hot))
    if not cases:
        return
    res = O.run_cases(cases)
    for (inst, g, ins, regs, flags, hot), cpu in zip(meta, res):
        ckey = ('cs16', inst['text'], tuple(sorted(regs.items())), tuple(sorted(flags.items())), hot)
        if cpu['status'] == 0xfffc:
            sh.counters['cs16_refused_by_host'] += 1
            sh.case(ckey, False, cls=None)
            continue
        if cpu['status'] != 0:
            sh.case(ckey, False, cls=None)
            sh.counters['cs16_cpu_fault:%d' % cpu['status']] += 1
            continue
        if cpu['cs'] != 7 and not inst['extra'].get('farret'):
            sh.counters['cs16_left_the_segment'] += 1
            sh.case(ckey, False, cls=None)
            continue
        ok = compare_case(sh, inst, g, ins, regs, flags, hot, cpu, keyprefix='cs16/')
        sh.counters['cs16_compared'] += 1 if ok else 0
        sh.case(ckey, ok, cls=('%s/%d/%s/%s/cs16' % (inst['mn'], inst['size'], inst['form'], inst['cls'])) if ok else None)


def equal_objects(sh, inst, g, ins):
    """Instruction objects that are equal to the decoded one but are other Python objects - a pickle round trip (what
    multiprocessing hands to a worker) and a decode whose configuration strings were built at run time - must lift to the same
    assignment list (the CPU comparison below judges the decoded object)."""
    import pickle
    from miasmx.arch.ia32_arch import x86mnemo
    from miasmx.core.bin_stream import bin_stream
    from miasmx.tools import emul_helper

    def lift(i):
        try:
            return [exprgen.canon(a) for a in emul_helper.get_instr_expr(i, exprgen.Int(O.CODE_ADDR + i.l, 32), [])]
        except Exception as e:
            return 'raises %s' % type(e).__name__
    ref = lift(ins)
    variants = []
    try:
        variants.append(('pickled', pickle.loads(pickle.dumps(ins))))
    except Exception:
        sh.counters['instruction_not_picklable'] += 1
    try:
        variants.append(('runtime-built-mode-strings', x86mnemo.dis(bin_stream(Virt(O.CODE_ADDR, g), O.CODE_ADDR), {'opmode': ''.join(['u', '3', '2']), 'admode': ''.join(['u', '3', '2'])})))
    except Exception:
        pass
    for name, v in variants:
        if v is None:
            continue
        got = lift(v)
        sh.case(('equal-object', name, inst['text']), True, cls=None)
        sh.counters['equal_objects_lifted'] += 1
        if got != ref:
            fam = re.sub(r'^(set|cmov|j)(' + '|'.join(CC) + ')$', r'\1cc', inst['mn'])
            sh.violation('equal-object/%s/%s' % (name, fam), '%s (%s): the decoded instruction lifts to %s, the %s equal object lifts to %s' % (inst['text'], g.hex(), ref, name, got),
                         {'text': inst['text'], 'code': g.hex(), 'equal_object': True})


def run_part(sh, insts, nstates, seed, tier):
    from miasmx.arch.ia32_arch import x86mnemo
    from miasmx.core.bin_stream import bin_stream
    asm = assemble(insts)
    cases = []
    meta = []
    for inst, (g, msg) in zip(insts, asm):
        if not g:
            sh.counters['gas_rejects_table_row'] += 1
            sh.extra.setdefault('gas_rejected', []).append(inst['text'])
            continue
        try:
            ins = x86mnemo.dis(bin_stream(Virt(O.CODE_ADDR, g), O.CODE_ADDR))
        except Exception:
            ins = None
        if ins is None or ins.l != len(g):
            sh.counters['miasmx_does_not_decode(C01)'] += 1
            continue
        equal_objects(sh, inst, g, ins)
        rng = common.rng_for(seed, 'C04', inst['text'])
        for k in range(nstates):
            regs, flags, hot = make_state(inst, rng, k)
            cases.append(dict(code=g, regs=[regs[r] for r in O.REGS], eflags=O.pack_eflags(flags), hot=hot, low=low_kind(inst, regs)))
            meta.append((inst, g, ins, regs, flags, hot))
    if not cases:
        return
    res = O.run_cases(cases)
    for (inst, g, ins, regs, flags, hot), cpu in zip(meta, res):
        cls = '%s/%d/%s/%s' % (inst['mn'], inst['size'], inst['form'], inst['cls'])
        if cpu['status'] != 0:
            sh.case((inst['text'], tuple(sorted(regs.items())), tuple(sorted(flags.items())), hot), False, cls=None)
            sh.counters['cpu_fault:%d' % cpu['status']] += 1
            continue
        ok = compare_case(sh, inst, g, ins, regs, flags, hot, cpu)
        sh.case((inst['text'], tuple(sorted(regs.items())), tuple(sorted(flags.items())), hot), ok, cls=cls if ok else None)
        if ok and len(sh.samples) < 3:
            sh.sample({'instruction': inst['text'], 'bytes': g.hex(), 'eax': hex(regs['eax']), 'cpu_eax': hex(cpu['regs'][0]), 'cpu_eflags': hex(cpu['eflags'])})


def run_shard(shard, tier, seed):
    sh = common.Shard()
    if shard[0] == 'mode16':
        run_mode16(sh, tier, seed)
        return sh
    if shard[0] == 'cs16':
        run_cs16(sh, shard[1], tier, seed)
        return sh
    insts = [x for j, x in enumerate(instances()) if j % NPARTS == shard[1]]
    run_part(sh, insts, 24 if tier == 'quick' else 400, seed, tier)
    return sh


def main(tier, seed):
    import time
    t0 = time.time()
    why = O.available()
    if why:
        print('INCONCLUSIVE: %s' % why)
        m = common.Shard()
        return common.conclude(PROPERTY, tier, seed, m, [], RULE % (24, 400), ASSUMPTIONS, t0, inconclusive_reasons=[why])
    results, errors = common.pool_run(__name__, shards(tier, seed), tier, seed, deadline_s=1500 if tier == 'quick' else 4 * 3600, tag=PROPERTY)
    merged = common.merge(results)
    cov = {'instances': len(instances()), 'gas_rejected_rows': merged.extra.get('gas_rejected', []), 'host_cpu': cpu_model()}
    return common.conclude(PROPERTY, tier, seed, merged, errors, RULE % (24, 400), ASSUMPTIONS, t0, extra_cov=cov)


def cpu_model():
    try:
        for l in open('/proc/cpuinfo'):
            if l.startswith('model name'):
                return l.split(':', 1)[1].strip()
    except Exception:
        pass
    return '?'


def replay(w):
    from miasmx.arch.ia32_arch import x86mnemo
    from miasmx.core.bin_stream import bin_stream
    sh = common.Shard()
    if w.get('equal_object'):
        inst = [i for i in instances() if i['text'] == w['text']][0]
        g = bytes.fromhex(w['code'])
        equal_objects(sh, inst, g, x86mnemo.dis(bin_stream(Virt(O.CODE_ADDR, g), O.CODE_ADDR)))
        return [(v['key'], v['detail']) for v in sh.violations]
    if w.get('mode16'):
        run_mode16(sh, 'quick', 0)
        return [(v['key'], v['detail']) for v in sh.violations if v['witness'].get('text') == w['text']]
    inst = [i for i in instances() if i['text'] == w['text']]
    if not inst:
        return []
    inst = inst[0]
    g = bytes.fromhex(w['code'])
    if w.get('cs16'):
        from miasmx.arch.ia32_reg import x86_afs
        ins = x86mnemo.dis(bin_stream(Virt(O.CODE_ADDR, g), O.CODE_ADDR), {'opmode': x86_afs.u16, 'admode': x86_afs.u16})
        regs, flags, hot = w['regs'], w['flags'], bytes.fromhex(w['hot'])
        cpu = O.run_cases([dict(code=g, regs=[regs[r] for r in O.REGS], eflags=O.pack_eflags(flags), hot=hot, low=low_kind(inst, regs), cs16=True)])[0]
        if cpu['status'] == 0 and ins is not None:
            compare_case(sh, inst, g, ins, regs, flags, hot, cpu, keyprefix='cs16/')
        return [(v['key'], v['detail']) for v in sh.violations]
    ins = x86mnemo.dis(bin_stream(Virt(O.CODE_ADDR, g), O.CODE_ADDR))
    regs, flags, hot = w['regs'], w['flags'], bytes.fromhex(w['hot'])
    cpu = O.run_cases([dict(code=g, regs=[regs[r] for r in O.REGS], eflags=O.pack_eflags(flags), hot=hot, low=low_kind(inst, regs))])[0]
    if cpu['status'] == 0 and ins is not None:
        compare_case(sh, inst, g, ins, regs, flags, hot, cpu)
    return [(v['key'], v['detail']) for v in sh.violations]
