"""C11 - every decodable instruction lifts to well-typed IR.

Type-checking monitor on the result of get_instr_expr for every string of the C01 space the
reference decoder accepts (no superfluous prefix) whose mnemonic has lifted semantics, with
and without the 66/67 prefixes.
"""
import re
from vf import common, x86space, gnuref, x86ref, irsem, exprgen

PROPERTY = 'C11'
RULE = ('the C01 byte space (every opcode cell x 256 ModRM x SIB/filler classes; prefixes none and 66, and 67 / 66 67 / segment on a reduced ModRM set), '
        'restricted to strings the reference decoder accepts without superfluous prefix and miasmX decodes with the same length, whose mnemonic is in the '
        "lifter's dispatch table or uses the '#' fallback. Each is lifted with get_instr_expr and the list is type-checked: elements are assignments, "
        'destinations are registers or memory cells, sources are value expressions typed by irsem.typecheck (equal operand widths for + - * & | ^ ==, '
        'slices inside operands, compose slots tiling), source width = destination width (a 1-bit flag may receive a wider source whose value is 0/1 on '
        '32 valuations), no two assignments write the same register or overlapping memory. A case = the byte string; non-trivial = it was lifted and checked.')
RULE += ' Round 6: address-rule keys carry the operand size (a32+o16, a16+o16).'
RULE += ' Round 7: the count grid of C01 (all 256 immediates on shift / rotate / double-shift / bit-test forms, with and without 66).'
RULE += ' Round 10: the one-byte and 0F maps are also decoded for a 16-bit code segment (attrib opmode/admode u16; prefixes none, 66, 67, 66 67; reference: objdump -M i8086), lifted and type-checked (keys cs16:...).'
ASSUMPTIONS = ['irsem.typecheck encodes the typing rules of the statement', '0/1-valuedness of flag sources is decided on 32 valuations (uninterpreted operators get the benefit of the doubt)']


def lift(ins):
    from miasmx.tools import emul_helper
    return emul_helper.get_instr_expr(ins, exprgen.Int(0x1000 + ins.l, 32), [])


def liftable(name):
    from miasmx.arch.ia32_sem import mnemo_func
    return name in mnemo_func or '#' in name


def check_list(ins, affs):
    """Returns list of (rule, location, detail)."""
    out = []
    admode = str(ins.admode)
    seen_ids = {}
    mems = []
    if not isinstance(affs, (list, tuple)):
        return [('result-not-a-list', 'top', repr(affs)[:80])]
    for i, a in enumerate(affs):
        if irsem.kind(a) != 'ExprAff':
            out.append(('element-not-assignment', 'top', '%s' % irsem.kind(a)))
            continue
        d, s = a.dst, a.src
        dk = irsem.kind(d)
        if dk not in ('ExprId', 'ExprMem'):
            out.append(('destination-kind:%s' % dk, 'dst', str(d)[:80]))
            continue
        issues = irsem.typecheck(s)
        if dk == 'ExprMem':
            issues += [(r, '/addr' + p, dt) for r, p, dt in irsem.typecheck(d.arg)]
            if not isinstance(d.size, int) or d.size <= 0 or d.size % 8:
                out.append(('mem-size', 'dst', 'destination cell of %r bits' % (d.size,)))
        for rule, path, detail in issues:
            loc = 'ADDR' if '/addr' in path else ('cond' if path.endswith('/cond') else ('compose-slot' if '/compose' in path else 'src'))
            out.append((rule, loc, '%s in %s' % (detail, str(a)[:160])))
        if issues:
            continue
        try:
            ws, wd = irsem.width(s), irsem.width(d)
        except irsem.IllFormed as e:
            out.append(('width-undetermined', 'src', repr(e)))
            continue
        if ws != wd and irsem.kind(s) == 'ExprOp' and not irsem.is_interpreted_op(s.op):
            # the width of an uninterpreted operator (x87, MMX, cpuid...) is a convention, not a fact: benefit of the doubt
            pass
        elif ws != wd:
            if wd == 1 and ws > 1:
                bad = None
                for k in range(32):
                    env = irsem.Env(seed=('c11', k))
                    try:
                        v = irsem.evaluate(s, env)
                    except (irsem.Undefined, irsem.Uninterpreted):
                        continue
                    except irsem.IllFormed as e:
                        bad = 'ill-formed %r' % (e,)
                        break
                    if v > 1:
                        bad = 'value 0x%x' % v
                        break
                if bad:
                    out.append(('flag-source-not-boolean', 'src', '%s receives %d-bit %s (%s)' % (d, ws, str(s)[:100], bad)))
            else:
                out.append(('source-width-differs/%d->%d' % (ws, wd), 'src', '%s = %s' % (d, str(s)[:120])))
        if dk == 'ExprId':
            if d.name in seen_ids:
                out.append(('duplicate-destination', 'reg', '%s assigned twice: %s' % (d.name, '; '.join(str(x)[:60] for x in affs))))
            seen_ids[d.name] = i
        else:
            mems.append(d)
    # overlapping memory destinations
    for i in range(len(mems)):
        for j in range(i + 1, len(mems)):
            a, b = mems[i], mems[j]
            if exprgen.canon(a.arg) == exprgen.canon(b.arg):
                out.append(('duplicate-destination', 'mem', '%s and %s' % (a, b)))
                continue
            ov = 0
            n = 0
            for k in range(4):
                env = irsem.Env(seed=('c11m', k))
                try:
                    x, y = irsem.evaluate(a.arg, env), irsem.evaluate(b.arg, env)
                except Exception:
                    continue
                n += 1
                if x < y + b.size // 8 and y < x + a.size // 8:
                    ov += 1
            if n and ov == n:
                out.append(('overlapping-destinations', 'mem', '%s and %s' % (a, b)))
    return out


def analyse(sh, items, cs16=False):
    from miasmx.arch.ia32_arch import x86mnemo
    from miasmx.arch.ia32_reg import x86_afs
    KP = 'cs16:' if cs16 else ''
    dec = []
    for b, cls in items:
        try:
            ins = x86mnemo.dis(b, {'opmode': x86_afs.u16, 'admode': x86_afs.u16}) if cs16 else x86mnemo.dis(b)
        except Exception:
            continue
        if ins is None or not liftable(ins.m.name):
            continue
        dec.append((b, cls, ins))
    if not dec:
        return
    ref = gnuref.objdump([d[0] for d in dec], syntax='intel,i8086' if cs16 else 'intel')
    for (b, cls, ins), (rl, rt) in zip(dec, ref):
        # the statement is about what miasmX decodes "under operand-size and address-size prefixes": an operand/address-size
        # prefix the reference prints as a stand-alone data16/addr16 token (it has no effect on e.g. int, hlt, jcc rel8) is
        # inside the quantifier; other meaning-free prefixes and rejected decodes are not
        rt_ = re.sub(r'^(data16|addr16)\s+', '', re.sub(r'^(data16|addr16)\s+', '', rt))
        if gnuref.superfluous_prefix(rt_) or rl > len(b) or rl == 0 or rl != ins.l:
            sh.counters['outside_quantifier_or_length_mismatch(C01)'] += 1
            continue
        mname = ins.m.name
        opm = 'o16' if (0x66 in ins.prefix) != cs16 else 'o32'
        sh.case((KP, b[:rl]) if cs16 else b[:rl], True, cls='%s%s/%s/mod%d' % (KP, mname, opm, cls[2]))
        wit = {'bytes': b.hex()}
        if cs16:
            wit['cs16'] = True
        try:
            affs = lift(ins)
        except RecursionError:
            sh.violation(KP + '%s/%s/lift-raises:RecursionError' % (mname, opm), 'lifting %s (%s)' % (b[:rl].hex(), rt), wit)
            continue
        except Exception as e:
            msg = re.sub(r"'[^']*'", "'_'", str(e))
            msg = re.sub(r'0x[0-9a-fA-F]+|\d+', 'N', msg)[:40]
            sh.violation(KP + '%s/%s/lift-raises:%s:%s' % (mname, opm, type(e).__name__, msg), 'lifting %s (%s) raised %r' % (b[:rl].hex(), rt, e), wit)
            continue
        probs = check_list(ins, affs)
        if len(sh.samples) < 3:
            sh.sample({'bytes': b[:rl].hex(), 'reference': rt, 'lifted': [str(a)[:100] for a in affs][:4], 'problems': len(probs)})
        seen = set()
        for rule, loc, detail in probs:
            if loc == 'ADDR':
                scaled = '*' in rt
                key = 'ADDR/%s%s/%s/%s' % ('a16' if (0x67 in ins.prefix) != cs16 else 'a32', '+o16' if (0x66 in ins.prefix) != cs16 else '', 'scaled' if scaled else 'unscaled', rule)
                if '#' in mname or mname in ('movq', 'pmovmskb'):
                    key += '/mmx-sse-operand'
                elif mname in ('les', 'lds', 'lfs', 'lgs', 'lss'):
                    key += '/far-pointer-load'
                else:
                    key += '/' + mname          # an address built by the instruction's own lifter: keyed by mnemonic
            elif mname.startswith('f') and mname not in ('femms',):
                # x87: one mechanism per (rule, destination), whatever the mnemonic (shared push/pop/compare helpers)
                m = re.match(r'^(\S+) (?:assigned twice|receives|= )', detail)
                dstname = m.group(1) if m else ''
                if '@' in dstname:
                    dstname = 'mem'
                key = 'x87/%s/%s/dst=%s' % (rule, loc, dstname)
            else:
                fam = mname
                if re.match(r'^j(n?[oszpbl]|n?[abgl]e|[abgl]|n?c|e|ne|z|nz|p[eo])$', mname):
                    fam = 'jcc'
                key = '%s/%s/%s/%s' % (fam, opm, rule, loc)
            key = KP + key
            if key in seen:
                continue
            seen.add(key)
            sh.violation(key, '%sbytes %s (%s): %s' % ('decoded for a 16-bit code segment, ' if cs16 else '', b[:rl].hex(), rt, detail), wit)


def shards(tier, seed):
    cl = x86space.cells((0, 1))      # the lifter covers the 1-byte and 0F maps (0F38/0F3A go through the '#' fallback: sampled below)
    out = [('cells', 0, i, 8) for i in range(0, len(cl), 8)]
    cl2 = x86space.cells((2, 3))
    out += [('cells', 1, i, 32) for i in range(0, len(cl2), 32)]
    out += [('prefixes', 0, i, 32) for i in range(0, len(cl), 32)]
    out += [('counts', 0, 0, 0)]
    out += [('cs16', 0, i, 16) for i in range(0, len(cl), 16)]
    return out


def run_shard(shard, tier, seed):
    sh = common.Shard()
    kind, which, i, per = shard
    cl = (x86space.cells((0, 1)) if which == 0 else x86space.cells((2, 3)))[i:i + per]
    items = []
    if kind == 'counts':
        items = list(x86space.count_grid(tier))
    elif kind == 'cs16':
        for cell in cl:
            for b, cls in x86space.strings_for_cell(cell, 'quick', seed, prefixes=x86space.STD_PREFIXES + [b'\x67', b'\x66\x67'], modrms=None if tier != 'quick' else tuple(range(0, 256, 5)) + (0xc0, 0xc1, 0xd8, 0x06, 0x46, 0x86),
                                                    sibs=x86space.SIB_QUICK[:2], nfill=0):
                items.append((b, cls))
        for k in range(0, len(items), 20000):
            analyse(sh, items[k:k + 20000], cs16=True)
        return sh
    elif kind == 'cells':
        for cell in cl:
            for b, cls in x86space.strings_for_cell(cell, tier, seed, prefixes=x86space.STD_PREFIXES,
                                                    sibs=x86space.SIB_QUICK[:3] if tier == 'quick' else x86space.SIB_QUICK + x86space.SIB_ALL64[::7],
                                                    nfill=0 if tier == 'quick' else 1):
                items.append((b, cls))
    else:
        modrms = (0x00, 0x05, 0x06, 0x44, 0x84, 0xc1, 0xd8, 0xf9, 0x24, 0x0c, 0x45, 0x86) if tier == 'quick' else tuple(range(0, 256, 3))
        pf = [b'\x67', b'\x66\x67', b'\x64', b'\x2e', b'\xf3', b'\xf2', b'\xf0']
        for cell in cl:
            for b, cls in x86space.strings_for_cell(cell, 'quick', seed, prefixes=pf, modrms=modrms, sibs=[0x24, 0x65, 0x98], nfill=0):
                items.append((b, cls))
    for k in range(0, len(items), 20000):
        analyse(sh, items[k:k + 20000])
    return sh


def replay(w):
    sh = common.Shard()
    b = bytes.fromhex(w['bytes'])
    analyse(sh, [(b, ((9, 9), '', (b[1] >> 6) if len(b) > 1 else 0, 0, None, 'replay'))], cs16=bool(w.get('cs16')))
    return [(v['key'], v['detail']) for v in sh.violations]
