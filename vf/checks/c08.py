"""C08 - read/write sets of lifted semantics never omit a real dependency.

Differential monitor with the host CPU as the reference: the instruction is single-stepped
from a state S and from states that differ from S in exactly one location L; L is a witnessed
dependency when a defined output differs. Every witnessed dependency must be in the union of
get_r(mem_read=True) of the lifted assignments, every location the CPU modifies in the union
of get_w(). Over-approximation is allowed; omissions are violations.
"""
import re
import struct
from vf import common, irsem, exprgen, gnuref, cpuoracle as O
from vf.checks import c04
from vf.checks.c17 import Virt

PROPERTY = 'C08'
RULE = ('the instruction table of C04 (integer core) plus MMX/SSE register and memory forms of every # template mnemonic the host CPU executes (forms chosen by GNU as acceptance), '
        '%d base states per instance; per base state one perturbed run for every general register (2 new values), every status flag and DF, the bytes of the memory operand / stack top / '
        'string operands, and every mm/xmm register named by the instruction (+2 others). Reported sets: union of get_r(mem_read=True) and of get_w() over get_instr_expr, sub-registers '
        'mapped to their parent, memory cells to byte intervals evaluated on the pre-state. A case = (instance, base state); non-trivial = at least one dependency or one modified location '
        'was witnessed on the CPU.')
RULE += ' Round 6: the 16-bit-addressed and address-size-prefixed instances of C04; x87: 159 forms (register-register both directions, popping, memory and integer operands, pushes, constants, compares, fcomi, fcmovcc, stack rotation) executed with the x87 stack loaded with finite values (perturbing ST(i) one at a time; written = the CPU changed a register that is tagged valid afterwards; C0..C3 are outputs of the compare family only).'
RULE += ' Round 7: 16-bit code-segment twins: the register-only rows decoded for that configuration must report the read and write sets of their 32-bit decoding.'
RULE += ' Round 8: the segment pushes and repeated-prefix rows of C04; the 16-bit code-segment twins include memory-operand rows and compare the reported memory cells (addresses evaluated on a state whose upper register halves are set).'
RULE += ' Round 9: far returns, the selector perturbed to the 64-bit user code selector (the step succeeds and cs, reported by the tracer, differs).'
RULE += ' Round 10: the reported sets are asked the way an analysis does: get_r() without memory first, then get_r(mem_read=True) on the same lifted objects.'
RULE += ' Round 10: the integer-core rows are also probed while executing in a 16-bit code segment (the bytes that mean the row there, decoded with attrib opmode/admode u16; keys cs16/...).'
ASSUMPTIONS = ['the host CPU under ptrace single-step is the reference; faulting steps are excluded', 'only architecturally defined outputs witness a read dependency (undefined flags are ignored as outputs); '
               'every flag the CPU changes counts as written', 'x87 registers hold finite normal values with all exceptions masked (the default control word); TOP is 0 initially; a register tagged empty after the step is not an output']

FLAGS = ['cf', 'pf', 'af', 'zf', 'nf', 'of', 'df']


def sse_instances():
    """MMX/SSE instances: (text, mnemonic, kind, mem base regs, fp regs named)."""
    from miasmx.arch import ia32_arch as A
    names = sorted(set(A.mnemo_mmx_hash.keys()) | set(['pmovmskb', 'movhlps', 'movlhps']))
    shapes = [('xmm1, xmm2', [], ['xmm1', 'xmm2']), ('xmm1, XMMWORD PTR [esi]', ['esi'], ['xmm1']), ('XMMWORD PTR [esi], xmm2', ['esi'], ['xmm2']),
              ('xmm1, QWORD PTR [esi]', ['esi'], ['xmm1']), ('xmm1, DWORD PTR [esi]', ['esi'], ['xmm1']), ('QWORD PTR [esi], xmm2', ['esi'], ['xmm2']), ('DWORD PTR [esi], xmm2', ['esi'], ['xmm2']),
              ('mm1, mm2', [], ['mm1', 'mm2']), ('mm1, QWORD PTR [esi]', ['esi'], ['mm1']), ('QWORD PTR [esi], mm2', ['esi'], ['mm2']), ('mm1, DWORD PTR [esi]', ['esi'], ['mm1']),
              ('eax, xmm2', [], ['xmm2']), ('xmm1, eax', [], ['xmm1']), ('eax, mm2', [], ['mm2']), ('mm1, eax', [], ['mm1']), ('xmm1, mm2', [], ['xmm1', 'mm2']), ('mm1, xmm2', [], ['mm1', 'xmm2']),
              ('xmm1, xmm2, 5', [], ['xmm1', 'xmm2']), ('xmm1, XMMWORD PTR [esi], 5', ['esi'], ['xmm1']), ('mm1, mm2, 5', [], ['mm1', 'mm2']), ('xmm1, 3', [], ['xmm1']), ('mm1, 3', [], ['mm1']),
              ('eax, xmm2, 1', [], ['xmm2']), ('xmm1, eax, 1', [], ['xmm1']), ('eax, mm2, 1', [], ['mm2']), ('mm1, eax, 1', [], ['mm1']), ('eax, DWORD PTR [esi]', ['esi'], []),
              ('xmm1, xmm2, xmm0', [], ['xmm0', 'xmm1', 'xmm2'])]
    out = []
    for n in names:
        for ops, bases, fps in shapes:
            out.append(dict(text='%s %s' % (n, ops), mn=n, size=32, form=re.sub(r'[0-9]', '', ops.replace('XMMWORD PTR [esi]', 'm128').replace('QWORD PTR [esi]', 'm64').replace('DWORD PTR [esi]', 'm32')).replace(' ', ''),
                            cls='-', bases=list(bases), idx=[], extra={'sse': True, 'fps': fps}))
    return out


def x87_instances():
    """x87 register-stack and memory forms. extra: x87=True, tag = abridged tag byte of the initial state (0x7f: ST7 empty, so
    that a push is legal), cc=True when the condition codes C0..C3 are the instruction's output."""
    out = []

    def add(text, form, bases=(), tag=0xff, cc=False, size=32):
        out.append(dict(text=text, mn=text.split()[0], size=size, form=form, cls='-', bases=list(bases), idx=[], extra={'x87': True, 'tag': tag, 'cc': cc}))
    for mn in ('fadd', 'fsub', 'fsubr', 'fmul', 'fdiv', 'fdivr'):
        add('%s st, st(2)' % mn, 'st,st(i)'); add('%s st(2), st' % mn, 'st(i),st'); add('%s st(5), st' % mn, 'st(i),st'); add('%s st, st(0)' % mn, 'st,st(0)')
        add('%s st, st(7)' % mn, 'st,st(i)'); add('%s st(1), st' % mn, 'st(i),st')
        add('%sp st(2), st' % mn, 'p:st(i),st'); add('%sp st(1), st' % mn, 'p:st(1),st')
        add('%s DWORD PTR [esi]' % mn, 'm32', bases=['esi']); add('%s QWORD PTR [esi]' % mn, 'm64', bases=['esi'])
        add('fi%s DWORD PTR [esi]' % mn[1:], 'mi32', bases=['esi']); add('fi%s WORD PTR [esi]' % mn[1:], 'mi16', bases=['esi'])
    for t in ('fxch st(3)', 'fxch st(1)', 'fxch st(7)'):
        add(t, 'st(i)')
    for t in ('fabs', 'fchs', 'fsqrt', 'frndint', 'fscale', 'fprem', 'fprem1', 'f2xm1', 'fsin', 'fcos', 'fxtract', 'fnop'):
        add(t, 'none', tag=0x7f if t == 'fxtract' else 0xff)
    for t in ('fyl2x', 'fpatan', 'fyl2xp1'):
        add(t, 'none-pop')
    for t in ('fld st(2)', 'fld st(0)', 'fld st(6)'):
        add(t, 'push:st(i)', tag=0x7f)
    for kw, f in (('DWORD', 'm32'), ('QWORD', 'm64'), ('TBYTE', 'm80')):
        add('fld %s PTR [esi]' % kw, 'push:' + f, bases=['esi'], tag=0x7f)
    for kw, f in (('WORD', 'mi16'), ('DWORD', 'mi32'), ('QWORD', 'mi64')):
        add('fild %s PTR [esi]' % kw, 'push:' + f, bases=['esi'], tag=0x7f)
    for t in ('fld1', 'fldz', 'fldpi', 'fldl2e', 'fldl2t', 'fldlg2', 'fldln2'):
        add(t, 'push:const', tag=0x7f)
    add('fst st(3)', 'st(i)'); add('fstp st(3)', 'p:st(i)'); add('fstp st(0)', 'p:st(0)'); add('fst st(7)', 'st(i)')
    for kw, f in (('DWORD', 'm32'), ('QWORD', 'm64')):
        add('fst %s PTR [edi+8]' % kw, f, bases=['edi']); add('fstp %s PTR [edi+8]' % kw, 'p:' + f, bases=['edi'])
    add('fstp TBYTE PTR [edi+8]', 'p:m80', bases=['edi'])
    for kw, f in (('WORD', 'mi16'), ('DWORD', 'mi32')):
        add('fist %s PTR [edi+8]' % kw, f, bases=['edi']); add('fistp %s PTR [edi+8]' % kw, 'p:' + f, bases=['edi']); add('fisttp %s PTR [edi+8]' % kw, 'p:tt' + f, bases=['edi'])
    add('fistp QWORD PTR [edi+8]', 'p:mi64', bases=['edi'])
    for t in ('fcom st(2)', 'fcomp st(2)', 'fcompp', 'fucom st(2)', 'fucomp st(2)', 'fucompp', 'ftst', 'fxam', 'fcom st(1)', 'fucom st(5)'):
        add(t, 'cmp' if 'p' not in t.split()[0][3:] else 'cmp-pop', cc=True)
    add('fcom DWORD PTR [esi]', 'cmp-m32', bases=['esi'], cc=True); add('fcomp QWORD PTR [esi]', 'cmp-pop-m64', bases=['esi'], cc=True); add('ficom WORD PTR [esi]', 'cmp-mi16', bases=['esi'], cc=True)
    for t in ('fcomi st, st(2)', 'fucomi st, st(2)', 'fcomip st, st(2)', 'fucomip st, st(3)', 'fcomi st, st(0)'):
        add(t, 'cmpi' if not t.split()[0].endswith('p') else 'cmpi-pop')
    for cc in ('b', 'e', 'be', 'u', 'nb', 'ne', 'nbe', 'nu'):
        add('fcmov%s st, st(2)' % cc, 'st,st(i)'); add('fcmov%s st, st(6)' % cc, 'st,st(i)')
    add('fincstp', 'rotate'); add('fdecstp', 'rotate'); add('ffree st(2)', 'st(i)')
    return out


X87_VALUES = [1.5, -2.25, 3.0, 0.5, -7.0, 10.0, 100.5, -0.125, 2.0, 1.0, 0.75, -3.5, 6.0, 12.0, 0.0, 1e10, -1e-5, 255.0, 65536.0, 1.25]


def parent(name):
    return name


def reported_sets(ins, regs, flags, hot, hb=None):
    """(read ids, read mem intervals, write ids, write mem intervals) from the lifted semantics; intervals on the pre-state."""
    from miasmx.tools import emul_helper
    affs = emul_helper.get_instr_expr(ins, exprgen.Int(O.CODE_ADDR + ins.l, 32), [])
    env = irsem.Env(seed='c08')
    for r in O.REGS:
        env.ids[r] = regs[r]
    for f, v in flags.items():
        env.ids[f] = v
    hb = O.HOT_ADDR if hb is None else hb
    for j, bt in enumerate(hot):
        env.mem[hb + j] = bt
    rid, rmem, wid, wmem = set(), [], set(), []
    # the consumer pattern of a data-flow analysis: the read sets in one traversal of the lifted result, the write sets in
    # a second traversal of the same object (a result that can only be traversed once yields empty write sets)
    for a in affs:
        if irsem.kind(a) != 'ExprAff':
            raise irsem.IllFormed('not an assignment')
    for a in affs:
        for x in a.get_w():
            if irsem.kind(x) == 'ExprId':
                wid.add(x.name)
            elif irsem.kind(x) == 'ExprMem':
                try:
                    wmem.append((irsem.evaluate(x.arg, env) & 0xffffffff, x.size // 8))
                except (irsem.Undefined, irsem.Uninterpreted, irsem.IllFormed):
                    wmem.append((0, 1 << 32))
    # a client that first asks for the plain read sets (registers only) and then for the sets including the memory cells and
    # the registers of their addresses, on the same lifted objects: the second answer must not depend on the first question
    for a in affs:
        try:
            a.get_r()
            a.src.get_r()
        except Exception:
            pass
    for a in affs:
        for x in a.get_r(mem_read=True):
            if irsem.kind(x) == 'ExprId':
                rid.add(x.name)
            elif irsem.kind(x) == 'ExprMem':
                try:
                    rmem.append((irsem.evaluate(x.arg, env) & 0xffffffff, x.size // 8))
                except (irsem.Undefined, irsem.Uninterpreted, irsem.IllFormed):
                    rmem.append((0, 1 << 32))      # unknown address: treated as covering everything (over-approximation is allowed)
        # a store reads the registers of its address
        if irsem.kind(a.dst) == 'ExprMem':
            for x in a.dst.arg.get_r(mem_read=True):
                if irsem.kind(x) == 'ExprId':
                    rid.add(x.name)
                elif irsem.kind(x) == 'ExprMem':
                    try:
                        rmem.append((irsem.evaluate(x.arg, env) & 0xffffffff, x.size // 8))
                    except Exception:
                        rmem.append((0, 1 << 32))
    return rid, rmem, wid, wmem


def covered(intervals, addr):
    return any(a <= addr < a + n for a, n in intervals)


def mem_probe_addrs(inst, regs, hb=None):
    """Byte addresses of the architectural memory operands of the instance (from the table's own templates)."""
    out = []
    hb = O.HOT_ADDR if hb is None else hb
    if inst['extra'].get('low'):
        # 16-bit addressing: [bx+si+disp], sums modulo 2^16; string pointers are si / di; the stack stays 32-bit
        P16 = {'bx': 'ebx', 'bp': 'ebp', 'si': 'esi', 'di': 'edi'}
        m = re.search(r'\[(bx|bp|si|di)(?:\+(si|di))?([+-](?:0x)?[0-9a-f]+)?\]', inst['text'])
        width = 1 if 'BYTE' in inst['text'] else (2 if re.search(r'\bWORD', inst['text']) else 4)
        if m and not inst['extra'].get('string'):
            b, i, d = m.groups()
            ea = (regs[P16[b]] + (regs[P16[i]] if i else 0) + (int(d, 0) if d else 0)) & 0xffff
            if inst['extra'].get('xlat'):
                ea, width = (regs['ebx'] + (regs['eax'] & 0xff)) & 0xffff, 1
            out += [(ea + k) & 0xffff for k in range(width)]
        if inst['extra'].get('string'):
            w = inst['size'] // 8
            for b in inst['extra']['bases16']:
                out += [((regs[b] & 0xffff) + k) & 0xffffffff for k in range(w)]
        if inst['extra'].get('stack'):
            out += [(regs['esp'] + k) & 0xffffffff for k in range(-4, 8)]
        return [a for a in dict.fromkeys(out) if hb <= a < hb + O.HOT]
    m = re.search(r'\[([a-z]{3})(?:\+([a-z]{3})\*([1248]))?([+-]\d+)?\]', inst['text'])
    if m:
        b, i, s, d = m.groups()
        ea = regs[b] + (regs[i] * int(s) if i else 0) + (int(d) if d else 0)
        width = 16 if 'XMMWORD' in inst['text'] else (10 if 'TBYTE' in inst['text'] else (8 if 'QWORD' in inst['text'] else (1 if 'BYTE' in inst['text'] else (2 if re.search(r'\bWORD', inst['text']) else 4))))
        out += [(ea + k) & 0xffffffff for k in range(width)]
        if inst['extra'].get('bitreg'):
            out += [(ea + k) & 0xffffffff for k in range(-16, 20)]
    if inst['extra'].get('stack') or inst['mn'] in ('push', 'pop', 'pushf', 'popf', 'pusha', 'popa', 'call', 'ret', 'enter', 'leave'):
        out += [(regs['esp'] + k) & 0xffffffff for k in range(0, 8)]
        if inst['mn'] == 'leave':
            out += [(regs['ebp'] + k) & 0xffffffff for k in range(0, 4)]
        if inst['mn'] == 'popa':
            out += [(regs['esp'] + k) & 0xffffffff for k in range(8, 32)]
    if inst['extra'].get('string'):
        w = inst['size'] // 8
        out += [(regs['esi'] + k) & 0xffffffff for k in range(w)] + [(regs['edi'] + k) & 0xffffffff for k in range(w)]
    if inst['extra'].get('xlat'):
        out.append((regs['ebx'] + (regs['eax'] & 0xff)) & 0xffffffff)
    return [a for a in dict.fromkeys(out) if O.HOT_ADDR <= a < O.HOT_ADDR + O.HOT]


def x87_view(cpu):
    """(list of ST(i) bytes or None when the register is tagged empty after the step, dict of condition codes)."""
    top = (cpu['swd'] >> 11) & 7
    st = []
    for i in range(8):
        phys = (top + i) & 7
        st.append(cpu['st'][10 * i:10 * i + 10] if (cpu['ftw'] >> phys) & 1 else None)
    swd = cpu['swd']
    return st, {'c0': (swd >> 8) & 1, 'c1': (swd >> 9) & 1, 'c2': (swd >> 10) & 1, 'c3': (swd >> 14) & 1}


def outputs(cpu, undef, with_fp, x87=None):
    o = {}
    if x87 is not None:
        st, cc = x87_view(cpu)
        for i in range(8):
            o['x87:st%d' % i] = st[i]
        if x87.get('cc'):
            for k_, v_ in cc.items():
                o['x87:' + k_] = v_
    for i, r in enumerate(O.REGS):
        o['reg:' + r] = cpu['regs'][i]
    fl = O.unpack_eflags(cpu['eflags'])
    for f in FLAGS:
        if f not in undef:
            o['flag:' + f] = fl[f]
    o['eip'] = cpu['eip']
    if 'cs' in cpu:
        o['seg:cs'] = cpu['cs']
    o['mem'] = cpu['hot']
    if with_fp:
        for i in range(8):
            o['fp:mm%d' % i] = cpu['mm'][8 * i:8 * i + 8]
            o['fp:xmm%d' % i] = cpu['xmm'][16 * i:16 * i + 16]
    return o


def run_instances(sh, insts, nstates, seed, cs16=False):
    """cs16: insts is a list of (row, bytes that mean the row in a 16-bit code segment); the step runs in the tracee's 16-bit code
    segment and the bytes are decoded with attrib opmode/admode u16 (keys cs16/...)."""
    from miasmx.arch.ia32_arch import x86mnemo
    from miasmx.arch.ia32_reg import x86_afs
    from miasmx.core.bin_stream import bin_stream
    if cs16:
        asm = [(b16, '') for inst, b16 in insts]
        insts = [inst for inst, b16 in insts]
    else:
        asm = c04.assemble(insts)
    plan = []          # (inst, code, ins, base state, list of (location, perturbed state))
    cases = []
    for inst, (g, msg) in zip(insts, asm):
        if not g:
            sh.counters['gas_rejects_form'] += 1
            continue
        try:
            ins = x86mnemo.dis(bin_stream(Virt(O.CODE_ADDR, g), O.CODE_ADDR), {'opmode': x86_afs.u16, 'admode': x86_afs.u16}) if cs16 else x86mnemo.dis(bin_stream(Virt(O.CODE_ADDR, g), O.CODE_ADDR))
        except Exception:
            ins = None
        if ins is None or ins.l != len(g):
            sh.counters['miasmx_does_not_decode(C01)'] += 1
            continue
        sse = inst['extra'].get('sse', False)
        rng = common.rng_for(seed, 'C08', inst['text'])
        # operand-less instructions (bcd adjusts, flag ops...) are single table rows with value-dependent behaviour: many more states
        ns = nstates * 12 if (inst['form'] == 'none' or inst['extra'].get('bitreg')) else nstates
        for k in range(ns):
            regs, flags, hot = c04.make_state(inst, rng, k)
            fp = None
            if sse:
                fp = (bytes(rng.getrandbits(8) for _ in range(64)), bytes(rng.getrandbits(8) for _ in range(128)))
            hb = c04.hot_base(inst, regs)
            x87 = None
            if inst['extra'].get('x87'):
                vals = [rng.choice(X87_VALUES) for _ in range(8)]
                if k % 3 == 1:
                    vals[0] = abs(vals[0]) or 1.0
                x87 = (b''.join(O.f80(v) for v in vals), inst['extra']['tag'])
            base = dict(regs=regs, flags=flags, hot=hot, fp=fp, hb=hb, low=c04.low_kind(inst, regs), x87=x87)
            perts = []
            addr_regs = set(inst['bases'] + inst['idx'] + ['esp'] + list(inst['extra'].get('bases16', ())))
            idx_regs = set(inst['idx'] + list(inst['extra'].get('idx16', ())))
            for r in O.REGS:
                vals = [regs[r] ^ 1, regs[r] ^ 0x80000000, (regs[r] + 0x01010100) & 0xffffffff] if r not in addr_regs else [regs[r] ^ 4, regs[r] + 8]
                if r in idx_regs:
                    vals = [regs[r] ^ 1, regs[r] ^ 2]
                for v in vals[:2]:
                    r2 = dict(regs)
                    r2[r] = v & 0xffffffff
                    perts.append(('reg:' + r, dict(regs=r2, flags=flags, hot=hot, fp=fp, x87=x87)))
            for f in FLAGS + (['ac', 'i_d'] if inst['mn'] in ('pushf', 'pushfd', 'pushfw') else []):
                f2 = dict(flags)
                f2[f] = f2.get(f, 0) ^ 1
                perts.append(('flag:' + f, dict(regs=regs, flags=f2, hot=hot, fp=fp, x87=x87)))
            for a in mem_probe_addrs(inst, regs, hb)[:40]:
                h2 = bytearray(hot)
                h2[a - hb] ^= 0xff
                if inst['extra'].get('popf'):
                    h2[a - hb] = hot[a - hb] ^ 0x01 if a == regs['esp'] else hot[a - hb]
                if inst['extra'].get('farret') and a == regs['esp'] + inst['extra']['farret']:
                    h2[a - hb] = 0x33        # another valid selector (the 64-bit user code segment): the step succeeds and cs differs
                perts.append(('mem:%d' % a, dict(regs=regs, flags=flags, hot=bytes(h2), fp=fp, x87=x87)))
            if x87:
                for i_ in range(8):
                    if not (x87[1] >> i_) & 1:
                        continue          # tagged empty: its content is not an input
                    cur = x87[0][10 * i_:10 * i_ + 10]
                    for alt in (O.f80(4.5), O.f80(-9.0)):
                        if alt != cur:
                            break
                    perts.append(('x87:st%d' % i_, dict(regs=regs, flags=flags, hot=hot, fp=fp, x87=(x87[0][:10 * i_] + alt + x87[0][10 * i_ + 10:], x87[1]))))
            if sse:
                probe_fp = list(inst['extra']['fps']) + ['xmm5', 'mm6']
                for name in probe_fp:
                    mmb, xmb = bytearray(fp[0]), bytearray(fp[1])
                    idx = int(name[-1])
                    if name.startswith('xmm'):
                        for q in range(16):
                            xmb[16 * idx + q] ^= 0x5a
                    else:
                        for q in range(8):
                            mmb[8 * idx + q] ^= 0x5a
                    perts.append(('fp:' + name, dict(regs=regs, flags=flags, hot=hot, fp=(bytes(mmb), bytes(xmb)))))
            plan.append((inst, g, ins, base, perts, len(cases)))
            for st in [base] + [p[1] for p in perts]:
                cases.append(dict(code=g, regs=[st['regs'][r] for r in O.REGS], eflags=O.pack_eflags(st['flags']), hot=st['hot'], fp=st['fp'], low=base['low'], x87=st.get('x87'), cs16=cs16))
    if not cases:
        return
    res = []
    for i in range(0, len(cases), 20000):
        res += O.run_cases(cases[i:i + 20000])
    for inst, g, ins, base, perts, pos in plan:
        cpu0 = res[pos]
        canon = (inst['text'], tuple(sorted(base['regs'].items())), tuple(sorted(base['flags'].items())), base['hot'], base['fp']) + (('cs16',) if cs16 else ())
        if cpu0['status'] != 0:
            sh.case(canon, False)
            sh.counters['cpu_fault:%d' % cpu0['status']] += 1
            continue
        sse = inst['extra'].get('sse', False)
        try:
            hb = base['hb']
            rid, rmem, wid, wmem = reported_sets(ins, base['regs'], base['flags'], base['hot'], hb)
        except Exception as e:
            sh.case(canon, False)
            sh.counters['lift_raises_or_ill_typed(C11)'] += 1
            continue
        undef = c04.undefined_flags(inst, base['regs'], None) if not sse else set()
        if inst['mn'] in ('bsf', 'bsr', 'shld', 'shrd', 'div', 'idiv'):
            undef = set(FLAGS) - ({'zf'} if inst['mn'] in ('bsf', 'bsr') else set())
        x87i = inst['extra'] if inst['extra'].get('x87') else None
        o0 = outputs(cpu0, undef, sse, x87i)
        fam = ('x87:' + inst['mn']) if x87i else ('MMX-SSE:' + re.sub(r'(ps|pd|ss|sd)$', '#', inst['mn'])) if sse else re.sub(r'^(set|cmov|j)(' + '|'.join(c04.CC) + ')$', r'\1cc', inst['mn'])
        if cs16:
            fam = 'cs16/' + fam
        form = inst['form']
        if inst['mn'] in ('bt', 'bts', 'btr', 'btc'):
            form = '%s/%d' % (form, inst['size'])       # the 16-bit bit-string forms are known to be wrong; keep the 32-bit ones visible
            br = inst['extra'].get('bitreg')
            if br:
                parent = {'ax': 'eax', 'cx': 'ecx', 'dx': 'edx', 'bx': 'ebx', 'bp': 'ebp', 'si': 'esi', 'di': 'edi'}.get(br, br)
                v = base['regs'][parent] & ((1 << inst['size']) - 1)
                if v >> (inst['size'] - 1):
                    v -= 1 << inst['size']
                form += '/bit-offset:%s' % ('negative' if v < 0 else ('inside-operand' if v < inst['size'] else 'beyond-operand'))
        witnessed = 0
        wit = {'cs16': cs16, 'text': inst['text'], 'code': g.hex(), 'regs': base['regs'], 'flags': base['flags'], 'hot': base['hot'].hex(), 'fp': [base['fp'][0].hex(), base['fp'][1].hex()] if base['fp'] else None,
               'x87': [base['x87'][0].hex(), base['x87'][1]] if base['x87'] else None}
        # --- read dependencies
        seen_keys = set()
        for j, (loc, st) in enumerate(perts):
            cpu1 = res[pos + 1 + j]
            if cpu1['status'] != 0:
                continue
            o1 = outputs(cpu1, undef, sse, x87i)
            dep = False
            for X in o0:
                if X == 'mem':
                    if o0[X] != o1[X]:
                        # differences other than the perturbed byte passing through
                        for q in range(O.HOT):
                            if o0[X][q] != o1[X][q]:
                                if loc == 'mem:%d' % (hb + q) and o0[X][q] == base['hot'][q] and o1[X][q] == st['hot'][q]:
                                    continue
                                dep = True
                                break
                    continue
                if o0[X] != o1[X]:
                    if X == loc:
                        # pass-through of the perturbed location itself
                        if loc.startswith('reg:'):
                            a0, a1 = base['regs'][loc[4:]], st['regs'][loc[4:]]
                        elif loc.startswith('flag:'):
                            a0, a1 = base['flags'][loc[5:]], st['flags'][loc[5:]]
                        elif loc.startswith('x87:'):
                            i_ = int(loc[-1])
                            a0, a1 = base['x87'][0][10 * i_:10 * i_ + 10], st['x87'][0][10 * i_:10 * i_ + 10]
                        elif loc.startswith('fp:'):
                            nm = loc[3:]
                            idx = int(nm[-1])
                            a0 = base['fp'][1][16 * idx:16 * idx + 16] if nm.startswith('xmm') else base['fp'][0][8 * idx:8 * idx + 8]
                            a1 = st['fp'][1][16 * idx:16 * idx + 16] if nm.startswith('xmm') else st['fp'][0][8 * idx:8 * idx + 8]
                        else:
                            a0 = a1 = None
                        if o0[X] == a0 and o1[X] == a1:
                            # untouched by the CPU. If the lifted semantics nevertheless assign this location, they have to
                            # read its old value to preserve it (e.g. the flags of a shift whose masked count is 0)
                            nm_ = loc.split(':', 1)[1]
                            if loc.startswith('x87:'):
                                nm_ = 'float_' + nm_
                            if not (loc.startswith(('reg:', 'flag:', 'x87:')) and nm_ in wid):
                                continue
                    dep = True
                    break
            if not dep:
                continue
            witnessed += 1
            if loc.startswith('reg:'):
                ok = loc[4:] in rid
            elif loc.startswith('flag:'):
                ok = loc[5:] in rid
            elif loc.startswith('fp:'):
                ok = loc[3:] in rid
            elif loc.startswith('x87:'):
                ok = ('float_' + loc[4:]) in rid
            else:
                ok = covered(rmem, int(loc[4:]))
            if not ok:
                lk = loc if not loc.startswith('mem:') else 'mem'
                if loc.startswith('x87:st'):
                    lk = 'x87:st0' if loc.endswith('0') else 'x87:stN'
                key = '%s/%s/read-omitted/%s' % (fam, form if not sse else '*', lk if not sse else re.sub(r'\d', 'N', lk))
                if key not in seen_keys:
                    seen_keys.add(key)
                    sh.violation(key, '%s (%s): changing %s changes the CPU result, but it is not in the read set %s + %d memory cells' % (inst['text'], g.hex(), loc, sorted(rid), len(rmem)), wit)
        # --- written locations
        fl0 = O.unpack_eflags(cpu0['eflags'])
        for i, r in enumerate(O.REGS):
            if cpu0['regs'][i] != base['regs'][r]:
                witnessed += 1
                if r not in wid:
                    key = '%s/%s/write-omitted/reg:%s' % (fam, form if not sse else '*', r)
                    if key not in seen_keys:
                        seen_keys.add(key)
                        sh.violation(key, '%s (%s): the CPU modifies %s, which is not in the write set %s' % (inst['text'], g.hex(), r, sorted(wid)), wit)
        for f in FLAGS:
            if fl0[f] != base['flags'][f]:
                witnessed += 1
                if f not in wid:
                    key = '%s/%s/write-omitted/flag:%s' % (fam, '*', f)
                    if key not in seen_keys:
                        seen_keys.add(key)
                        sh.violation(key, '%s (%s): the CPU modifies %s, which is not in the write set %s' % (inst['text'], g.hex(), f, sorted(wid)), wit)
        for q in range(O.HOT):
            if cpu0['hot'][q] != base['hot'][q]:
                witnessed += 1
                if not covered(wmem, hb + q):
                    key = '%s/%s/write-omitted/mem' % (fam, form if not sse else '*')
                    if key not in seen_keys:
                        seen_keys.add(key)
                        sh.violation(key, '%s (%s): the CPU modifies memory at 0x%x, not covered by the written cells %s' % (inst['text'], g.hex(), hb + q, wmem[:4]), wit)
                    break
        if x87i:
            st_after, cc_after = x87_view(cpu0)
            for i in range(8):
                before_ = base['x87'][0][10 * i:10 * i + 10] if (base['x87'][1] >> i) & 1 else None
                if st_after[i] is not None and st_after[i] != before_:
                    witnessed += 1
                    if 'float_st%d' % i not in wid:
                        key = '%s/%s/write-omitted/x87:st%s' % (fam, form, 'N' if i else '0')
                        if key not in seen_keys:
                            seen_keys.add(key)
                            sh.violation(key, '%s (%s): the CPU modifies ST(%d) (%r -> %r), float_st%d is not in the write set %s' % (
                                inst['text'], g.hex(), i, O.from_f80(before_) if before_ else None, O.from_f80(st_after[i]), i, sorted(wid)), wit)
            if x87i.get('cc'):
                for cname, v_ in sorted(cc_after.items()):
                    if v_ != 0:
                        witnessed += 1
                        if 'float_' + cname not in wid:
                            key = '%s/%s/write-omitted/x87:%s' % (fam, form, cname)
                            if key not in seen_keys:
                                seen_keys.add(key)
                                sh.violation(key, '%s (%s): the CPU sets %s, float_%s is not in the write set %s' % (inst['text'], g.hex(), cname.upper(), cname, sorted(wid)), wit)
        if sse:
            for i in range(8):
                for nm, a, b in (('mm%d' % i, cpu0['mm'][8 * i:8 * i + 8], base['fp'][0][8 * i:8 * i + 8]), ('xmm%d' % i, cpu0['xmm'][16 * i:16 * i + 16], base['fp'][1][16 * i:16 * i + 16])):
                    if a != b:
                        witnessed += 1
                        if nm not in wid:
                            key = '%s/*/write-omitted/fp:%s' % (fam, re.sub(r'\d', 'N', nm))
                            if key not in seen_keys:
                                seen_keys.add(key)
                                sh.violation(key, '%s (%s): the CPU modifies %s, which is not in the write set %s' % (inst['text'], g.hex(), nm, sorted(wid)), wit)
        sh.case(canon, witnessed > 0, cls='%s/%s' % (inst['mn'], inst['form']) if witnessed else None)
        if witnessed and len(sh.samples) < 3:
            sh.sample({'instruction': inst['text'], 'read set': sorted(rid), 'write set': sorted(wid), 'witnessed': witnessed})


NPARTS = 96


def shards(tier, seed):
    return [('int', p) for p in range(NPARTS)] + [('sse', p) for p in range(NPARTS)] + [('x87', p) for p in range(8)] + [('mode16', 0)] + [('cs16', p) for p in range(16)]


def run_mode16(sh):
    """The other legitimate configuration (a 16-bit code segment): the register-only rows of the table, encoded for that
    configuration, must report the read and write sets they report in 32-bit code (those are checked against the CPU)."""
    from miasmx.arch.ia32_arch import x86mnemo
    from miasmx.arch.ia32_reg import x86_afs
    for inst, b32, b16 in c04.mode_twins():
        try:
            i32 = x86mnemo.dis(b32)
            i16 = x86mnemo.dis(b16, {'opmode': x86_afs.u16, 'admode': x86_afs.u16})
        except Exception:
            i32 = i16 = None
        if i32 is None or i16 is None or i32.l != len(b32) or i16.l != len(b16):
            sh.counters['mode16_not_decoded(C01/C10)'] += 1
            continue
        regs = dict((r, ((0xa5c30000 + 0x01010000 * k) & 0xffff0000) | (0x1000 + 16 * k)) for k, r in enumerate(O.REGS))      # upper halves set: 16- and 32-bit addresses differ
        flags = dict((f, 0) for f in FLAGS)
        try:
            r32 = reported_sets(i32, regs, flags, b'')
        except Exception:
            sh.counters['mode16_reference_lift_raises(C11)'] += 1
            continue
        fam = re.sub(r'^(set|cmov)(' + '|'.join(c04.CC) + ')$', r'\1cc', inst['mn'])
        wit = {'text': inst['text'], 'code': b32.hex(), 'code16': b16.hex(), 'mode16': True}
        try:
            r16 = reported_sets(i16, regs, flags, b'')
        except Exception as e:
            sh.case(('mode16', inst['text']), True, cls='%s/%s/mode16' % (inst['mn'], inst['form']))
            sh.violation('mode16/%s/%d/lift-raises:%s' % (fam, inst['size'], type(e).__name__), '%s: %s lifts in 32-bit code, %s decoded for a 16-bit code segment raises %r' % (inst['text'], b32.hex(), b16.hex(), e), wit)
            continue
        sh.case(('mode16', inst['text']), True, cls='%s/%s/mode16' % (inst['mn'], inst['form']))
        for what, a, b in (('read', r32[0], r16[0]), ('write', r32[2], r16[2]), ('read-cells', r32[1], r16[1]), ('written-cells', r32[3], r16[3])):
            a, b = set(a) - set(['eip']), set(b) - set(['eip'])
            if b < a or (a - b):
                sh.violation('mode16/%s/%d/%s-set-smaller' % (fam, inst['size'], what), '%s: %s in 32-bit code has %s set %s, %s in a 16-bit code segment (the same instruction) has %s' % (
                    inst['text'], b32.hex(), what, sorted(a), b16.hex(), sorted(b)), wit)


def run_shard(shard, tier, seed):
    sh = common.Shard()
    if shard[0] == 'cs16':
        tw = [(inst, b16) for j, (inst, b32, b16) in enumerate(c04.mode_twins(flow=True)) if j % 16 == shard[1] and len(b16) <= 15 and not inst['extra'].get('farret')]
        run_instances(sh, tw, 2 if tier == 'quick' else 8, seed, cs16=True)
        return sh
    if shard[0] == 'mode16':
        run_mode16(sh)
        return sh
    if shard[0] == 'x87':
        insts = [x for j, x in enumerate(x87_instances()) if j % 8 == shard[1]]
        run_instances(sh, insts, 6 if tier == 'quick' else 40, seed)
        return sh
    table = c04.instances() if shard[0] == 'int' else sse_instances()
    insts = [x for j, x in enumerate(table) if j % NPARTS == shard[1]]
    run_instances(sh, insts, (4 if tier == 'quick' else 24) if shard[0] == 'int' else (2 if tier == 'quick' else 8), seed)
    return sh


def main(tier, seed):
    import time
    t0 = time.time()
    why = O.available()
    if why:
        print('INCONCLUSIVE: %s' % why)
        return common.conclude(PROPERTY, tier, seed, common.Shard(), [], RULE % 4, ASSUMPTIONS, t0, inconclusive_reasons=[why])
    results, errors = common.pool_run(__name__, shards(tier, seed), tier, seed, deadline_s=1500 if tier == 'quick' else 4 * 3600, tag=PROPERTY)
    merged = common.merge(results)
    cov = {'integer_instances': len(c04.instances()), 'sse_form_candidates': len(sse_instances()), 'x87_instances': len(x87_instances()), 'host_cpu': c04.cpu_model()}
    return common.conclude(PROPERTY, tier, seed, merged, errors, RULE % (4 if tier == 'quick' else 24), ASSUMPTIONS, t0, extra_cov=cov)


def replay(w):
    sh = common.Shard()
    if w.get('mode16'):
        run_mode16(sh)
        return [(v['key'], v['detail']) for v in sh.violations if v['witness'].get('text') == w['text']]
    if w.get('cs16'):
        tw = [(inst, b16) for inst, b32, b16 in c04.mode_twins(flow=True) if inst['text'] == w['text']]
        run_instances(sh, tw[:1], 8, 0, cs16=True)
        return [(v['key'], v['detail']) for v in sh.violations]
    table = c04.instances() + sse_instances() + x87_instances()
    inst = [i for i in table if i['text'] == w['text']]
    if not inst:
        return []
    run_instances(sh, inst[:1], 8, 0)
    return [(v['key'], v['detail']) for v in sh.violations]
