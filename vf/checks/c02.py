"""C02 - x86 assembler candidates encode exactly the requested instruction.

Reference-model monitor: every generated line is assembled by miasmX (all candidates are
examined) and by GNU as in the same syntax mode; each candidate must be read by the reference
disassembler as exactly one instruction of its full length whose text equals the reference
disassembly of GNU as's encoding; a value GNU as refuses or shortens must yield no candidate.
"""
import os
import re
from vf import common, gnuref, x86ref, asmgen

PROPERTY = 'C02'
RULE = ('every mnemonic of the assembler vocabulary (x86mndb.mnemo_lookup with the # templates expanded: ~660 names) x ~70 operand-shape templates '
        '(reg8/16/32, segment/control/debug/mm/xmm/st registers, 25 memory-operand classes with every size keyword, symbols) x the boundary immediates '
        '-129,-128,-1,0,1,127,128,255,256,32767,32768,65535,65536,2^31-1,2^31,2^32-1,2^32,-2^31,-2^31-1 for 10 immediate shapes; Intel syntax directly, '
        'AT&T syntax as the reference spelling (objdump -M att of GNU as\'s encoding) plus a direct AT&T generator for ALU immediates, plus a memory-operand grid (base x index incl. base == index x scale x displacement, 3 templates quick / 8 thorough). All candidates of '
        'each accepted line are examined. A case = (syntax, line); non-trivial = miasmX returned >= 1 candidate; classes = (syntax, mnemonic, shape, immediate class).')
RULE += " Round 6: symbol-relative operands in nine spellings (N+sym[regs], -N+sym[regs], sym[regs+N], sym[regs-N], N[regs], N[regs+M] ...) with one and two registers; an 'optimised' shard sends the boundary lines and a third of the Intel corpus through a child interpreter started with -O and demands exactly the candidates of the normal interpreter (a range check may not live in an assert)."
RULE += ' Round 7: AT&T symbol differences with an addend ((a-b)-N, (a-b)+N, a-b-N, N+a-b ...) in displacement and immediate positions, the reference assembly defining the two symbols as absolute zero.'
RULE += ' Round 10: numbers in every spelling both assemblers read alike (decimal, 0x / 0X, digit case, leading zeros) in 7 operand positions; one accepted line in three is assembled a second time and must return the same candidates.'
ASSUMPTIONS = ['GNU as 2.40 (--32) defines what a line denotes and whether an immediate fits (error or "shortened" warning = does not fit); objdump 2.40 reads the candidates',
               'when GNU as rejects a line miasmX accepts, only self-consistency is checked (one full-length instruction, all candidates with the same reference text)']

BRANCH_MN = re.compile(r'^(j[a-z]+|call|loop[a-z]*|jecxz|jcxz)$')


_sse = []


def SSE_NAMES():
    if not _sse:
        from miasmx.arch import ia32_arch as A
        _sse.append(set(A.mnemo_mmx_hash.keys()) | set(['movhlps', 'movlhps', 'cvttpd2dq', 'pmovmskb', 'movq']))
    return _sse[0]


ARITH_SHAPES = ('r32,i', 'r16,i', 'r8,i', 'eax,i', 'ax,i', 'al,i', 'm32,i', 'm16,i', 'm8,i')
ARITH_MNEMONICS = ('mov', 'add', 'adc', 'sub', 'sbb', 'and', 'or', 'xor', 'cmp', 'test')


def width_of_shape(shape):
    first = shape.split(',')[0]
    if first in ('r8', 'm8', 'al'):
        return 8
    if first in ('r16', 'm16', 'ax'):
        return 16
    return 32


def run_batch(sh, batch, syntax):
    """batch: list of (line, mnemonic, shape, imm value)."""
    from miasmx.arch.ia32_arch import x86mnemo
    f = x86mnemo.asm if syntax == 'intel' else x86mnemo.asm_att
    cands = []
    for line, mn, shape, v in batch:
        try:
            c = f(line)
        except ValueError:
            c = None
        except Exception:
            sh.counters['asm_raises(C10)'] += 1
            c = None
        cands.append(c)
        if c and len(cands) % 3 == 0:
            # the candidates of a line do not depend on the line having been assembled before: the same text once more
            sh.counters['assembled_twice'] += 1
            try:
                c2 = f(str(line))
            except Exception as e_:
                c2 = 'raises %s' % type(e_).__name__
            if c2 != c and not (isinstance(c2, list) and [bytes(x) for x in c2] == [bytes(x) for x in c]):
                sh.case((syntax, line, 'twice'), True, cls=None)
                sh.violation('%s/second-assembly-differs' % syntax, '%r: first %s, assembled again %s' % (line, [bytes(x).hex() for x in c][:4], c2 if not isinstance(c2, list) else [bytes(x).hex() for x in c2][:4]),
                             {'line': line, 'syntax': syntax, 'mnemonic': mn, 'shape': shape, 'imm': v})
    ref = gnuref.gas([b[0] for b in batch], syntax)
    # objdump of the reference encodings and of all candidates
    ref_ok = [i for i, (g, msg) in enumerate(ref) if g]
    ref_dis = dict(zip(ref_ok, gnuref.objdump([ref[i][0] for i in ref_ok])))
    flat = []
    for i, c in enumerate(cands):
        if c:
            for j, b in enumerate(c):
                if 0 < len(b) <= 15:
                    flat.append((i, j, b))
    cd = gnuref.objdump([x[2] for x in flat])
    per = {}
    for (i, j, b), d in zip(flat, cd):
        per.setdefault(i, []).append((b, d))
    for i, (line, mn, shape, v) in enumerate(batch):
        c = cands[i]
        g, msg = ref[i]
        w = width_of_shape(shape)
        icls = asmgen.imm_class(v, w)
        cls = '%s/%s/%s/%s' % (syntax, mn, shape, icls)
        if not c:
            sh.case((syntax, line), False, cls=None)
            if g and 'shortened' not in msg and 'truncated' not in msg:
                sh.counters['reference_accepts_miasmx_rejects(not in the statement)'] += 1
            continue
        sh.case((syntax, line), True, cls=cls)
        wit = {'line': line, 'syntax': syntax, 'mnemonic': mn, 'shape': shape, 'imm': v}
        if len(sh.samples) < 3:
            sh.sample({'line': line, 'syntax': syntax, 'candidates': [b.hex() for b in c[:4]], 'gas': g.hex() if g else msg[:60]})
        fam = 'MMX-SSE' if mn in SSE_NAMES() else mn
        if fam == 'MMX-SSE' and re.search(r'mm|m64|m128', shape):
            # SIMD operand shapes: one key per mnemonic (a family-wide key would hide a newly broken row), except for the one
            # mechanism that hits the whole family: the vocabulary is the cross product of templates (andnss, movass, movmskpREPNZ ...)
            # and of operand classes (mm operands for xmm-only rows), so lines the architecture does not have are assembled
            fam = ('MMX-SSE:' + mn) if g else 'MMX-SSE+line-rejected-by-reference'
        keybase = '%s/%s/%s' % (syntax, fam, shape)
        items = per.get(i, [])
        if len(items) != len(c):
            sh.violation('%s/not-one-insn/empty-or-oversized-candidate' % keybase, '%s(%r) returned %s' % (syntax, line, [b.hex() for b in c]), wit)
            continue
        bad_len = [(b, d) for b, d in items if d[0] != len(b) or '(bad)' in d[1]]
        if bad_len:
            b, d = bad_len[0]
            sh.violation('%s/not-one-insn/w%d/%s' % (keybase, w, icls), '%r: candidate %s is read by objdump as %d bytes "%s"' % (line, b.hex(), d[0], d[1]), wit)
            continue
        texts = [x86ref.sort_unscaled_pair(x86ref.norm_ref_text(d[1])) for b, d in items]
        # arithmetic clause, independent of the reference assembler (GNU as --32 itself wraps such values silently): a value
        # outside [-2^(w-1), 2^w) fits no immediate form of a w-bit operation, so no candidate may exist
        if v is not None and shape in ARITH_SHAPES and not (-(1 << (w - 1)) <= v < (1 << w)) and (mn in ARITH_MNEMONICS) and re.search(r'(?<![\w])\$?%d\b' % v if v >= 0 else r'\$?-%d\b' % -v, line):
            wrapped = ((v + (1 << 31)) % (1 << 32)) - (1 << 31)
            if -(1 << (w - 1)) <= wrapped < (1 << w):
                key = '%s/immediate-outside-the-operand-width-accepted-after-wrapping-mod-2^32/w%d/%s' % (syntax, w, icls)
            else:
                key = '%s/imm-trunc/w%d/%s' % (keybase, w, icls)
            sh.violation(key, '%r: %d does not fit %d bits, yet candidates %s = "%s" are returned' % (line, v, w, [b.hex() for b in c[:3]], texts[0]), wit)
            continue
        refuses = (not g) or 'shortened' in msg or 'truncated' in msg
        fits_err = (not g) and re.search(r'out of range|too large|overflow|exceeds|bad expression|too big', msg or '') is not None
        if g and not refuses:
            rt = x86ref.sort_unscaled_pair(x86ref.norm_ref_text(ref_dis[i][1]))
            if BRANCH_MN.match(mn) and x86ref.is_rel_branch(ref_dis[i][1]):
                # miasmX takes a numeric operand of a relative branch as the displacement itself
                for (b, d), t in zip(items, texts):
                    if not x86ref.is_rel_branch(d[1]):
                        sh.violation('%s/branch/not-a-relative-branch' % keybase, '%r: candidate %s means "%s"' % (line, b.hex(), d[1]), wit)
                        break
                    disp, bits = x86ref.rel_disp(d[1], d[0])
                    if v is not None and (disp - v) % (1 << 32):
                        sh.violation('%s/branch/displacement' % keybase, '%r: candidate %s has displacement %d' % (line, b.hex(), disp), wit)
                        break
                    if x86ref.ref_mnemonic(d[1]).rstrip('w') != x86ref.ref_mnemonic(ref_dis[i][1]).rstrip('w'):
                        sh.violation('%s/meaning/w%d/%s' % (keybase, w, icls), '%r means "%s" but candidate %s means "%s"' % (line, rt, b.hex(), t), wit)
                        break
                continue
            for (b, d), t in zip(items, texts):
                if t.startswith('data16 ') and t[7:] == rt:
                    # same instruction behind a meaning-free operand-size prefix (tests/test_decode.py pins 66ec as 'in al, dx')
                    sh.counters['candidate_with_meaning_free_data16_prefix'] += 1
                    continue
                if t != rt and x86ref.drop_default_ds(t) != x86ref.drop_default_ds(rt):
                    kind = 'meaning'
                    if v is not None and strip_imm(t) == strip_imm(rt):
                        kind = 'imm-trunc'
                    if x86ref.sort_unscaled_pair(t, True) == x86ref.sort_unscaled_pair(rt, True):
                        # one mechanism whatever the mnemonic: an unscaled register pair containing ebp is encoded with the roles exchanged
                        sh.violation('%s/base-index-roles-exchanged-with-ebp(default segment ss vs ds)' % syntax,
                                     '%r means "%s" (GNU as: %s) but candidate %s means "%s"' % (line, rt, g.hex(), b.hex(), t), wit)
                        break
                    sh.violation('%s/%s/w%d/%s' % (keybase, kind, w, icls), '%r means "%s" (GNU as: %s) but candidate %s means "%s"' % (line, rt, g.hex(), b.hex(), t), wit)
                    break
        elif refuses and v is not None and (g or fits_err):
            # the value does not fit this form for the reference: no candidate may exist
            sh.violation('%s/imm-trunc/w%d/%s' % (keybase, w, icls), '%r: GNU as says "%s" but miasmX returns %s = "%s"' % (line, msg[:80], [b.hex() for b in c[:3]], texts[0]), wit)
        else:
            sh.counters['reference_rejects_line(weak oracle)'] += 1
            if len(set(x86ref.drop_default_ds(t) for t in texts)) > 1:
                sh.violation('%s/candidates-disagree' % keybase, '%r (rejected by GNU as: %s): candidates mean %s' % (line, msg[:60], sorted(set(texts))[:3]), wit)


def strip_imm(t):
    return re.sub(r'(?<![\w\[+*-])-?0x[0-9a-f]+$|,-?0x[0-9a-f]+$', ',IMM', t)


def att_direct_lines():
    """Direct AT&T lines for the immediate-boundary clause (so that lines GNU as refuses are exercised too)."""
    out = []
    regs = {'b': ['%al', '%bh'], 'w': ['%ax', '%si'], 'l': ['%eax', '%edi']}
    mems = ['(%eax)', '4(%ebx,%ecx,2)', '%fs:(%edx)', '4660']
    for mn in ('mov', 'add', 'adc', 'sub', 'sbb', 'and', 'or', 'xor', 'cmp', 'test'):
        for sfx, w in (('b', 8), ('w', 16), ('l', 32)):
            for v in asmgen.IMM_BOUNDARY:
                for dst in regs[sfx] + mems[:2]:
                    shape = ('r%d,i' % w) if dst.startswith('%') and not dst.startswith('%fs') else ('m%d,i' % w)
                    out.append(('%s%s $%d, %s' % (mn, sfx, v, dst), mn, shape, v))
    for v in asmgen.IMM_BOUNDARY:
        out.append(('pushl $%d' % v, 'push', 'i', v))
        out.append(('pushw $%d' % v, 'push', 'i', v))
        out.append(('imull $%d, %%ebx, %%ecx' % v, 'imul', 'r32,r32,i', v))
        out.append(('ret $%d' % v, 'ret', 'i', v))
        out.append(('int $%d' % v, 'int', 'i', v))
        out.append(('shll $%d, %%eax' % v, 'shl', 'r32,i', v))
        out.append(('enter $%d, $1' % v, 'enter', 'i,i', v))
    # symbol differences with an addend, as PIC / jump-table code writes them (sd_foo and sd_bar are absolute symbols of value 0)
    for n in (8, 130, 300):
        for sd in ('(sd_foo-sd_bar)-%d' % n, '(sd_foo-sd_bar)+%d' % n, 'sd_foo-sd_bar-%d' % n, 'sd_foo-sd_bar+%d' % n, '%d+sd_foo-sd_bar' % n, '-%d+sd_foo-sd_bar' % n, 'sd_foo-%d' % n, 'sd_foo+%d' % n):
            out.append(('movl %s(%%ebx), %%eax' % sd, 'mov', 'symdiff:m32,r32', None))
            out.append(('leal %s(%%esi,%%ecx,4), %%edx' % sd, 'lea', 'symdiff:m0,r32', None))
            out.append(('pushl $%s' % sd, 'push', 'symdiff:i', None))
            out.append(('addl $%s, %%eax' % sd, 'add', 'symdiff:i,r32', None))
    return out


NPARTS = 96


def shards(tier, seed):
    return [('intel', p) for p in range(NPARTS)] + [('att-direct', 0)] + [('optimised', p) for p in range(4)]


def run_optimised(sh, batch, syntax):
    """Interpreter-flag differential: the same lines through a child started with -O (assert statements and __debug__ blocks are
    compiled away there) must give exactly the candidates the normal interpreter gives: a range check is not allowed to live in
    an assert."""
    import subprocess, json, sys
    from miasmx.arch.ia32_arch import x86mnemo
    f = x86mnemo.asm if syntax == 'intel' else x86mnemo.asm_att
    lines = [b[0] for b in batch]
    env = dict(os.environ, PYTHONPATH=common.REPO, PYTHONDONTWRITEBYTECODE='1', PYTHONHASHSEED='0')
    try:
        r = subprocess.run([sys.executable, '-O', os.path.join(common.VERIF, 'vf', 'optchild.py')], input=json.dumps({'syntax': syntax, 'lines': lines}).encode(),
                           env=env, stdout=subprocess.PIPE, stderr=subprocess.PIPE, timeout=1200)
        rep = json.loads(r.stdout.decode())
    except Exception as e:
        sh.counters['optimised_child_failed'] += 1
        return
    if rep.get('optimize', 0) < 1 or len(rep['results']) != len(lines):
        sh.counters['optimised_child_failed'] += 1
        return
    for (line, mn, shape, v), got in zip(batch, rep['results']):
        try:
            c = f(line)
            here = None if c is None else [bytes(b).hex() for b in c]
        except Exception as e:
            here = 'raises:' + type(e).__name__
        sh.case(('opt', syntax, line), nontrivial=isinstance(here, list) and len(here) > 0, cls='optimised/%s/%s' % (syntax, shape))
        if here != got:
            kind = 'accepted-only-under-O' if isinstance(got, list) and got and not (isinstance(here, list) and here) else 'differs'
            sh.violation('interpreter-flag-O/%s/%s/%s/%s' % (syntax, mn, shape, kind), '%r: normal interpreter -> %s, python -O -> %s' % (line, str(here)[:120], str(got)[:120]),
                         {'line': line, 'mnemonic': mn, 'shape': shape, 'imm': v, 'syntax': syntax, 'optimised': True})


def run_shard(shard, tier, seed):
    sh = common.Shard()
    if shard[0] == 'att-direct':
        run_batch(sh, att_direct_lines(), 'att')
        return sh
    if shard[0] == 'optimised':
        if shard[1] == 0:
            run_optimised(sh, att_direct_lines(), 'att')
        else:
            # every third part of the Intel corpus (all mnemonics over the parts; boundary immediates are in every part)
            for p_ in range(shard[1] - 1, NPARTS, 3 * 3):
                run_optimised(sh, list(asmgen.lines('quick', seed, p_, NPARTS)), 'intel')
        return sh
    batch = list(asmgen.lines(tier, seed, shard[1], NPARTS))
    run_batch(sh, batch, 'intel')
    # AT&T spelling of the same instructions, as printed by the reference
    ref = gnuref.gas([b[0] for b in batch], 'intel')
    ok = [i for i, (g, msg) in enumerate(ref) if g and 'shortened' not in msg and 'truncated' not in msg]
    att = gnuref.objdump([ref[i][0] for i in ok], 'att,suffix')
    abatch = []
    seen = set()
    for i, (l, t) in zip(ok, att):
        if l != len(ref[i][0]) or '(bad)' in t or x86ref.is_rel_branch(t):
            continue
        t = re.sub(r'\s+', ' ', t).strip()
        if t in seen:
            continue
        seen.add(t)
        abatch.append((t, batch[i][1], batch[i][2], batch[i][3]))
    run_batch(sh, abatch, 'att')
    return sh


def replay(w):
    sh = common.Shard()
    if w.get('optimised'):
        run_optimised(sh, [(w['line'], w['mnemonic'], w['shape'], w['imm'])], w['syntax'])
        return [(v['key'], v['detail']) for v in sh.violations]
    run_batch(sh, [(w['line'], w['mnemonic'], w['shape'], w['imm'])], w['syntax'])
    return [(v['key'], v['detail']) for v in sh.violations]
