"""C01 - x86 decoding agrees with the IA-32 instruction set.

Reference-model monitor: every byte string of the enumerated opcode x ModRM x SIB x prefix x
filler space is decoded by miasmX and by GNU objdump; length and raw bytes are compared
directly, the meaning by  objdump(as(str(dis(b)))) == objdump(b)  (both sides printed by the
same reference printer), with dedicated comparators for relative branches and far pointers
and llvm-objdump as second opinion on every mismatch.
"""
import re
from vf import common, x86space, gnuref, x86ref

PROPERTY = 'C01'
RULE = ('every opcode cell of the 1-byte, 0F, 0F38 and 0F3A maps x all 256 ModRM values x SIB classes (4 per ModRM quick, 16 thorough) x '
        'deterministic filler classes (00/7f/80/ff/..., plus one seeded random filler) x prefixes none and 66 (quick), + 67, every segment, '
        'F2, F3, F0 where the reference finds them meaningful (thorough; quick on a reduced ModRM set), + the complete 16-bit ModRM table (all 256 ModRM values of every opcode cell under 67; thorough also 66 67 and 67 2e). Restricted, as the statement says, to '
        'strings that miasmX and objdump both accept as one instruction without superfluous prefixes. A case = the byte string; non-trivial = '
        'both decoders accept; classes = (opcode cell, prefix, mod).')
RULE += " Round 6: a 'stringops' shard puts the string instructions and the other prefix-sensitive one-byte opcodes under every ordered pair and some triples of rep / operand-size / address-size / segment prefixes; where GNU as cannot read a rendering, the repeat prefix is compared as well wherever IA-32 gives it a meaning (f3 on every string instruction, f2 on cmps/scas)."
RULE += ' Round 7: all 256 immediates on shift / rotate / double-shift / bit-test / MMX-shift / aam-aad forms (count grid).'
RULE += ' Round 10: one string in eight is first decoded for a 16-bit code segment (result dropped) and only then decoded as usual: that decode is the one judged against the reference and must equal the decode of the string with one more trailing byte; the last decoded object with the same second byte is printed again after every decode and must print as before (instruction objects stay valid while others are decoded); one string in eight is also decoded with configuration strings built at run time and sent through a pickle round trip: same length, bytes and text.'
RULE += ' Round 8: one accepted string in eight is decoded a second and third time through a library stream positioned at a non-zero offset (followed by other bytes / ending exactly with the instruction): length, raw bytes, text and bytes consumed must be those of the plain decode.'
ASSUMPTIONS = ['GNU binutils 2.40 (objdump -M intel, as --32) is the reading of IA-32 bytes and Intel text; LLVM 14 llvm-objdump is the tie-breaker: '
               'when it disagrees with objdump about the length the case is a reference disagreement, not a violation',
               'a rendering GNU as cannot read is undecided here (C09 judges readability)']


LIVE = {}


def analyse(sh, items, tier):
    """items: list of (bytes, cls). Runs the whole pipeline on one batch."""
    from miasmx.arch.ia32_arch import x86mnemo
    dec = []
    from miasmx.arch.ia32_reg import x86_afs as _afs
    nth = 0
    for b, cls in items:
        nth += 1
        pre16 = (b[0] + nth) % 8 == 3
        if pre16:
            # the other configuration first: the same bytes decoded for a 16-bit code segment, result dropped; the default decode
            # that follows (and is judged against the reference below) must also equal the decode of the string with one more
            # trailing byte, which no earlier call has seen
            try:
                x86mnemo.dis(b, {'opmode': _afs.u16, 'admode': _afs.u16})
            except Exception:
                pass
        try:
            ins = x86mnemo.dis(b)
        except Exception:
            sh.counters['dis_raises(C10)'] += 1
            continue
        if pre16:
            sh.counters['decoded_after_a_16bit_decode_of_the_same_bytes'] += 1
            try:
                i3 = x86mnemo.dis(b + b'\x90')
                a_, b_ = (None if ins is None else (ins.l, bytes(ins.b), str(ins))), (None if i3 is None else (i3.l, bytes(i3.b), str(i3)))
            except Exception:
                a_ = b_ = None
            if a_ != b_ and (a_ is None or a_[0] <= len(b)) and (b_ is None or b_[0] <= len(b)):
                sh.case(('pre16', b), True, cls=None)
                sh.violation('configuration-interleave/default-decode-after-16bit-decode-of-the-same-bytes', 'bytes %s: decoded right after dis(bytes, 16-bit code segment) the default decode gives %r; the same string with one more trailing byte gives %r' % (
                    b.hex(), a_ and (a_[0], a_[1].hex(), a_[2]), b_ and (b_[0], b_[1].hex(), b_[2])), {'bytes': b.hex(), 'pre16': True})
        if ins is None:
            sh.counters['miasmx_rejects'] += 1
            continue
        try:
            text = str(ins)
        except Exception:
            sh.counters['render_raises(C10)'] += 1
            continue
        dec.append((b, cls, ins.l, bytes(ins.b), text, ins.m.name))
        if (b[0] + nth) % 8 == 5:
            # objects that are equal to the decoded one without being it: a pickle round trip, and a decode whose configuration
            # strings were built at run time (equal to the library's constants, not identical): same length, bytes and text
            import pickle
            sh.counters['equal_objects_printed'] += 1
            for name, mk in (('pickled', lambda: pickle.loads(pickle.dumps(ins))), ('runtime-built-mode-strings', lambda: x86mnemo.dis(b, {'opmode': ''.join(['u', '3', '2']), 'admode': ''.join(['u', '3', '2'])}))):
                try:
                    o_ = mk()
                    got = None if o_ is None else (o_.l, bytes(o_.b), str(o_))
                except Exception as e_:
                    got = 'raises %s' % type(e_).__name__
                if got != (ins.l, bytes(ins.b), text):
                    sh.case(('equal-object', name, b), True, cls=None)
                    sh.violation('equal-object/%s' % name, 'bytes %s decode as %r; the %s equal object gives %r' % (b.hex(), (ins.l, bytes(ins.b).hex(), text), name, got if not isinstance(got, tuple) else (got[0], got[1].hex(), got[2])), {'bytes': b.hex()})
        # decoded instruction objects stay valid while other strings are decoded: the last object whose second byte was the same
        # (same ModRM row under another opcode, same opcode under another prefix) is printed again
        k2 = b[1] if len(b) > 1 else -1
        prev = LIVE.get(k2)
        if prev is not None and prev[2] != b[0]:
            sh.counters['live_objects_reprinted'] += 1
            try:
                t2 = str(prev[0])
            except Exception as e_:
                t2 = 'raises %s' % type(e_).__name__
            if t2 != prev[1]:
                sh.case(('live', prev[3], b), True, cls=None)
                sh.violation('live-object/rendering-changed-after-another-decode', 'dis(%s) printed as %r; after dis(%s) the same object prints as %r' % (prev[3].hex(), prev[1], b.hex(), t2), {'bytes': b.hex(), 'previous': prev[3].hex()})
        LIVE[k2] = (ins, text, b[0], b)
        # the same bytes read by a linear-sweep client: from a stream positioned at a non-zero offset, once followed by other bytes
        # and once ending exactly where the instruction ends; the report (length, raw bytes, text, stream position) must be the same
        if (b[0] + len(dec)) % 8 == 0:
            from miasmx.core.bin_stream import bin_stream
            for off, tail in ((3, b'\xcc' * 6), (19, b'')):
                data = bytes((k_ * 29 + 5) & 0xff for k_ in range(off)) + b[:ins.l] + tail
                sh.case(('offset', b[:ins.l], off), True, cls=None)
                try:
                    st = bin_stream(data, off)
                    i2 = x86mnemo.dis(st)
                    got = None if i2 is None else (i2.l, bytes(i2.b), str(i2), st.offset - off)
                except Exception as e_:
                    got = 'raises %s' % type(e_).__name__
                if got != (ins.l, bytes(ins.b), text, ins.l):
                    sh.violation('stream-offset/%s' % ('followed-by-bytes' if tail else 'exact-end'),
                                 'bytes %s decode as (l, raw, text, consumed) = %r from the start of a string but as %r from a stream positioned at offset %d' % (
                                     b[:ins.l].hex(), (ins.l, bytes(ins.b).hex(), text, ins.l), got if not isinstance(got, tuple) else (got[0], got[1].hex(), got[2], got[3]), off), {'bytes': b.hex()})
    if not dec:
        return
    ref = gnuref.objdump([d[0] for d in dec])
    cand = []
    for d, (rl, rt) in zip(dec, ref):
        b, cls, l, raw, text, mname = d
        if gnuref.superfluous_prefix(rt) or rl > len(b) or rl == 0:
            sh.counters['outside_quantifier(reference rejects or superfluous prefix)'] += 1
            continue
        sh.case(b, True, cls='%d.%02x/p%s/mod%d' % (cls[0][0], cls[0][1], cls[1], cls[2]))
        if len(sh.samples) < 3:
            sh.sample({'bytes': b[:max(l, rl)].hex(), 'miasmx': [l, text], 'objdump': [rl, rt]})
        cand.append((b, cls, l, raw, text, mname, rl, rt))
    # direct comparisons first
    to_asm = []
    problems = []      # (kind, record, detail)
    for rec in cand:
        b, cls, l, raw, text, mname, rl, rt = rec
        if raw != b[:l]:
            problems.append(('raw', rec, 'reported bytes %s are not the input prefix' % raw.hex()))
            continue
        if l != rl:
            problems.append(('len', rec, 'miasmX length %d, reference length %d' % (l, rl)))
            continue
        if x86ref.is_rel_branch(rt):
            # a 66 prefix on call/jmp/jcc rel selects a 16-bit displacement and truncates the target to 16 bits
            f16 = '66' in x86ref.prefix_class(b) and not re.match(r'^(loop|jecxz|jcxz)', x86ref.ref_mnemonic(rt)) and rl - len(x86ref.prefix_class(b).split('+')) >= 3
            want, wbits = x86ref.rel_disp(rt, rl, force16=f16)
            got = x86ref.parse_int(text.split()[-1]) if len(text.split()) > 1 else None
            if got is None or (got - want) % (1 << wbits):
                problems.append(('branch-target', rec, 'reference displacement %d (mod 2^%d), miasmX prints %r' % (want, wbits, text)))
            continue
        mfar = x86ref.FARPTR_RE.search(rt)
        if mfar:
            seg, off = int(mfar.group(1), 16), int(mfar.group(2), 16)
            nums = [x86ref.parse_int(x) for x in re.split(r'[ ,]+', text.split(None, 1)[1])] if len(text.split(None, 1)) > 1 else []
            if sorted(n & 0xffffffff for n in nums if n is not None) != sorted([seg, off]):
                problems.append(('meaning', rec, 'far pointer %s vs %r' % (rt, text)))
            continue
        to_asm.append(rec)
    # meaning through the reference assembler/printer
    lines = [x86ref.intel_for_gas(r[4]) for r in to_asm]
    asm = gnuref.gas(lines, 'intel')
    ok_idx = [i for i, (g, msg) in enumerate(asm) if g is not None and len(g) > 0 and 'shortened' not in msg and 'truncated' not in msg]
    back = gnuref.objdump([asm[i][0] for i in ok_idx])
    back_map = dict(zip(ok_idx, back))
    for i, rec in enumerate(to_asm):
        b, cls, l, raw, text, mname, rl, rt = rec
        g, msg = asm[i]
        if i not in back_map:
            sh.counters['undecided(gas cannot read the rendering)'] += 1
            sh.extra.setdefault('undecided_mnemonics', set()).add(x86ref.ref_mnemonic(rt))
            # the operands cannot be compared through the reference assembler, but the mnemonic still can: the first token of
            # the rendering that is not a prefix, against the reference mnemonic (modulo the size-suffix / far-call conventions)
            mm = miasm_mnemonic(text)
            rm = x86ref.ref_mnemonic(rt)
            if mm and not same_mnemonic(mm, rm):
                problems.append(('mnemonic', rec, 'bytes mean "%s" but miasmX renders "%s" (%s is not %s; GNU as cannot read the rendering)' % (rt, text, mm, rm)))
            elif mm and rep_class(rt.split()) != rep_class(text.split()) and (rm.rstrip('bwdl') in ('cmps', 'scas') or (rep_class(rt.split()) == 'f3' and rm.rstrip('bwdl') in ('movs', 'lods', 'stos', 'ins', 'outs'))):
                # ... and so can a repeat prefix where IA-32 gives it a meaning: f3 on every string instruction, f2 on cmps/scas
                # (f2 on the others is reserved; miasmX shows it as a raw '[0xf2]', which is not judged)
                problems.append(('rep-prefix', rec, 'bytes mean "%s" but miasmX renders "%s" (repeat prefix %s vs %s; GNU as cannot read the rendering)' % (rt, text, rep_class(rt.split()), rep_class(text.split()))))
            continue
        gl, gt = back_map[i]
        if gl != len(g):
            sh.counters['undecided(gas output is not one instruction)'] += 1
            continue
        n1, n2 = x86ref.norm_ref_text(gt), x86ref.norm_ref_text(rt)
        if n1 != n2 and x86ref.drop_default_ds(n1) != x86ref.drop_default_ds(n2):
            problems.append(('meaning', rec, 'bytes mean "%s" but miasmX renders "%s", which means "%s"' % (rt, text, gt)))
    if not problems:
        return
    # second opinion
    second = gnuref.llvm_objdump([p[1][0] for p in problems])
    for (kind, rec, detail), (ll, lt) in zip(problems, second):
        b, cls, l, raw, text, mname, rl, rt = rec
        if ll != rl or lt == '<unknown>':
            sh.counters['reference_disagreement(objdump vs llvm)'] += 1
            continue
        mn = x86ref.ref_mnemonic(rt)
        sig = x86ref.operand_sig(x86ref.norm_ref_text(rt))
        pc = x86ref.prefix_class(b)
        if ('xmm' in sig or 'mm' in sig.split(',') or mname.count('#')) and (kind == 'len' or '67' in pc or 'seg' in pc):
            # one mechanism for the whole '#'-template family: prefixes other than the mandatory one
            # are not taken into account when MMX/SSE operands are decoded
            mn, sig = 'MMX/SSE', '*'
            pc = 'addr16-prefix-ignored' if '67' in pc else ('segment-prefix-changes-operand-decoding' if 'seg' in pc else pc)
        opc0 = next((c for c in b if c not in x86space.PREFIX_BYTES), 0)
        iop = next((k for k, c in enumerate(b) if c not in x86space.PREFIX_BYTES), 0)
        if opc0 in (0xc4, 0xc5, 0x62) and (x86ref.ref_mnemonic(rt).startswith('v') or (len(b) > iop + 1 and b[iop + 1] >= 0xc0)):
            # c4/c5/62 followed by a mod=3 byte is a VEX/EVEX prefix in 32-bit mode (vaddps, kandnw, ...)
            mn, sig = 'VEX', '*'
        key = '%s/%s/%s/p=%s' % (kind, mn, sig, pc)
        if kind == 'len':
            key = 'len/%s/p=%s/mod%d/delta=%+d' % (mn, pc, cls[2], l - rl)
            if mn == 'MMX/SSE' and not pc[0].isdigit() and pc != 'none':
                key = 'len/MMX/SSE/p=%s' % pc
            if mn == 'VEX':
                key = 'len/VEX-or-EVEX(miasmX reads lds/les/bound with a register operand)'
        sh.violation(key, 'bytes %s: %s' % (b[:max(l, rl)].hex(), detail), {'bytes': b.hex()})


MIASM_PREFIX_TOKENS = ('lock', 'rep', 'repe', 'repne', 'repz', 'repnz')


def miasm_mnemonic(text):
    for tok in text.split():
        if tok in MIASM_PREFIX_TOKENS or tok.startswith('['):
            continue
        return tok
    return None


def rep_class(toks):
    for t in toks:
        if t in ('rep', 'repz', 'repe'):
            return 'f3'
        if t in ('repnz', 'repne'):
            return 'f2'
    return None


def same_mnemonic(mm, rm):
    """miasmX and objdump spell some mnemonics differently without disagreeing on the instruction."""
    if mm == rm:
        return True
    if set((mm, rm)) == set(('sal', 'shl')):
        return True
    if re.match(r'^cmp(eq|lt|le|unord|neq|nlt|nle|ord)(ps|pd|ss|sd)$', rm) and mm == 'cmp' + rm[-2:]:
        return True      # objdump prints the predicate pseudo-op, miasmX the base form with its immediate
    if mm + 'w' == rm or mm + 'd' == rm or mm + 'l' == rm:            # fldenv / fldenvw, lgdt / lgdtd, sgdt / sgdtw ...
        return True
    if mm in ('callf', 'jmpf', 'retf') and mm[:-1] in (rm, rm.rstrip('w')):      # far transfers
        return True
    if rm.rstrip('bwdlq') == mm.rstrip('bwdlq') and rm[:3] in ('mov', 'cmp', 'sto', 'lod', 'sca', 'ins', 'out', 'pus', 'pop'):
        return True
    return False


def shards(tier, seed):
    cl = x86space.cells()
    per = 8
    out = [('cells', i, per) for i in range(0, len(cl), per)]
    out += [('prefixes', i, 32) for i in range(0, len(cl), 32)]
    out += [('addr16', i, 16) for i in range(0, len(cl), 16)]
    out += [('grids', 0, 0), ('stringops', 0, 0)]
    return out


def run_shard(shard, tier, seed):
    sh = common.Shard()
    cl = x86space.cells()[shard[1]:shard[1] + shard[2]]
    items = []
    if shard[0] == 'cells':
        sibs = x86space.SIB_QUICK[:4] if tier == 'quick' else x86space.SIB_ALL64[::4] + x86space.SIB_QUICK
        for cell in cl:
            for b, cls in x86space.strings_for_cell(cell, tier, seed, prefixes=x86space.STD_PREFIXES, sibs=sibs, nfill=1 if tier == 'quick' else 3):
                items.append((b, cls))
    elif shard[0] == 'grids':
        items = list(x86space.sib_grid(tier)) + list(x86space.disp_grid(tier)) + list(x86space.count_grid(tier))
    elif shard[0] == 'stringops':
        # string instructions and the other prefix-sensitive one-byte opcodes under every pair (both orders) and some triples of
        # repeat x operand-size x address-size x segment prefixes: the only place where three prefix kinds all change the meaning
        singles = [b'\xf2', b'\xf3', b'\x66', b'\x67', b'\x26', b'\x2e', b'\x36', b'\x64']
        pf = [x + y for x in singles for y in singles if x != y and not (x[0] in (0x26, 0x2e, 0x36, 0x64) and y[0] in (0x26, 0x2e, 0x36, 0x64)) and set((x[0], y[0])) != set((0xf2, 0xf3))]
        pf += [b'\xf3\x66\x67', b'\x66\xf2\x67', b'\x67\x66\xf3', b'\xf2\x26\x66', b'\x64\xf3\x66', b'\x66\x36\xf2', b'\xf3\x67\x2e']
        for op in list(range(0xa4, 0xb0)) + [0x6c, 0x6d, 0x6e, 0x6f, 0xd7, 0x90, 0xc3, 0x9c, 0x9d, 0x60, 0x61, 0x98, 0x99, 0xe3]:
            for b, cls in x86space.strings_for_cell((0, op), 'quick', seed, prefixes=pf, modrms=[0x00], sibs=[0x24], nfill=1):
                items.append((b, cls))
    elif shard[0] == 'addr16':
        # the 16-bit ModRM table (67 prefix): every ModRM value of every opcode cell
        for cell in cl:
            for b, cls in x86space.strings_for_cell(cell, 'quick', seed, prefixes=[b'\x67'] if tier == 'quick' else [b'\x67', b'\x66\x67', b'\x67\x2e'], sibs=[0x24], nfill=1):
                items.append((b, cls))
    else:
        modrms = (0x00, 0x05, 0x44, 0x84, 0xc1, 0xd8, 0xf9, 0x24) if tier == 'quick' else tuple(range(0, 256, 5)) + (0x04, 0x44, 0x84, 0x05, 0xc0, 0xff)
        pf = [b'\x67', b'\xf2', b'\xf3', b'\xf0', b'\x66\x67'] + x86space.SEG_PREFIXES
        if tier == 'thorough':
            pf += [b'\x2e\x66', b'\x64\x67', b'\x66\xf2', b'\x66\xf3', b'\xf0\x66', b'\xf3\x67', b'\x65\xf0']
        for cell in cl:
            for b, cls in x86space.strings_for_cell(cell, 'quick', seed, prefixes=pf, modrms=modrms, sibs=[0x24, 0x65, 0x1d], nfill=1):
                items.append((b, cls))
    for i in range(0, len(items), 20000):
        analyse(sh, items[i:i + 20000], tier)
    return sh


def finalize(merged, tier, seed):
    und = sorted(merged.extra.get('undecided_mnemonics', []))
    cov = {'undecided_mnemonics': und, 'reference_versions': gnuref.versions()}
    if merged.extra.get('undecided_pairs'):
        cov['undecided_pairs'] = sorted(merged.extra['undecided_pairs'])
    return {'coverage': cov}


def replay(w):
    sh = common.Shard()
    b = bytes.fromhex(w['bytes'])
    analyse(sh, [(b, ((9, 9), '', (b[1] >> 6) if len(b) > 1 else 0, 0, None, 'replay'))], 'quick')
    return [(v['key'], v['detail']) for v in sh.violations]
