"""C17 - control-flow metadata agrees with the instruction's architectural behaviour.

Reference-model monitor: breakflow/splitflow/dstflow of every decoded string are compared
with an architectural classification keyed by the *reference* mnemonic (objdump), the
fall-through address with offset+length, and getdstflow() of every direct relative transfer
with the harness's own target arithmetic, at real stream offsets up to 2^32-1.
"""
import re
import struct
from vf import common, x86space, gnuref, x86ref

PROPERTY = 'C17'
RULE10 = ' Round 10: every transfer of part B, every transfer of part A and one other instruction in eight are printed in all five syntax variants (default, Intel, Intel objdump, AT&T binutils, AT&T objdump) and queried again: next-flow address, destination, classification, offset and length must be what they were.'
RULE = ('(A) the C01 byte space (every opcode cell x 256 ModRM x SIB/filler classes, prefixes none/66 and, on a reduced ModRM set, 67/segment/F2/F3/F0): '
        'classification of each string accepted by both decoders without superfluous prefixes against the table {jmp, ret*, iret*, hlt, ud2: '
        'block end without fall-through; jcc, loop*, jecxz/jcxz, call: block end with fall-through and destination; everything else continues; '
        'syscall/sysenter/sysexit/sysret excluded}, and getnextflow() == offset+l; (B) every jcc/jmp/call/loop/jecxz form with rel8/rel16/rel32 '
        'displacements at boundary values, decoded from a virtual stream at offsets {0,1,0x1000,0x7fffffff,0x80000000,0xfffffff0..0xffffffff}: '
        'offset recorded, getnextflow, getdstflow == (offset+l+sext(disp)) mod 2^opsize. A case = (bytes, offset); non-trivial = both decoders accept '
        '(A) / miasmX accepts the transfer (B).')
RULE += RULE10
RULE += ' Round 6: transfers with repeated and hint-separated operand-size prefixes (66 66 e9, 66 2e 66 e8, 67 67 e9 ...).'
ASSUMPTIONS = ['objdump 2.40 mnemonics identify the architectural instruction class', 'target arithmetic of part B is the harness own (SDM: EIP := (EIP + sext(rel)) truncated to the operand size)']

NO_FALLTHROUGH = re.compile(r'^(jmp|jmpw|ljmp|ljmpw|ret|retw|retf|retfw|lret|lretw|iret|iretw|iretd|hlt|ud2)$')
SPLIT = re.compile(r'^(j[a-z]+|loop[a-z]*|call|callw|lcall|lcallw)$')
EXCLUDED = ('syscall', 'sysenter', 'sysexit', 'sysret', 'sysretl', 'sysexitl')


def expected_class(mn):
    if mn in EXCLUDED:
        return None
    if NO_FALLTHROUGH.match(mn):
        return 'end'
    if SPLIT.match(mn) and not mn.startswith('jmp'):
        return 'split'
    return 'cont'


def flags(ins):
    return bool(ins.breakflow()), bool(ins.splitflow()), bool(ins.dstflow())


def part_a(sh, items):
    from miasmx.arch.ia32_arch import x86mnemo
    dec = []
    for b, cls in items:
        try:
            ins = x86mnemo.dis(b)
        except Exception:
            continue
        if ins is None:
            continue
        try:
            f = flags(ins)
            nf = ins.getnextflow()
        except Exception as e:
            f = ('raises', type(e).__name__, '')
            nf = None
        dec.append((b, cls, ins, f, nf))
    if not dec:
        return
    ref = gnuref.objdump([d[0] for d in dec])
    for (b, cls, ins, f, nf), (rl, rt) in zip(dec, ref):
        if gnuref.superfluous_prefix(rt) or rl > len(b) or rl == 0 or rl != ins.l:
            sh.counters['outside_quantifier_or_length_mismatch(C01)'] += 1
            continue
        mn = x86ref.ref_mnemonic(rt)
        want = expected_class(mn)
        if want is None:
            sh.counters['excluded(sys*)'] += 1
            continue
        sh.case(b, True, cls='%s:%s' % (want, mn if want != 'cont' else '%d.%02x' % cls[0]))
        wit = {'bytes': b.hex(), 'part': 'A'}
        if f[0] == 'raises':
            sh.violation('flow-raises:%s/%s' % (f[1], mn), 'bytes %s (%s): control-flow query raised' % (b[:rl].hex(), rt), wit)
            continue
        if nf != 0 + ins.l:
            sh.violation('nextflow/%s' % mn, 'bytes %s: getnextflow()=%r, offset+l=%d' % (b[:rl].hex(), nf, ins.l), wit)
        bk, sp, dt = f
        if want == 'end' and not (bk and not sp):
            sh.violation('%s/%s' % ('breakflow' if not bk else 'splitflow', mn), 'bytes %s mean "%s" (ends a block, no fall-through) but breakflow=%s splitflow=%s' % (b[:rl].hex(), rt, bk, sp), wit)
        elif want == 'split' and not (bk and sp and dt):
            which = 'breakflow' if not bk else ('splitflow' if not sp else 'dstflow')
            sh.violation('%s/%s' % (which, mn), 'bytes %s mean "%s" (ends a block with fall-through and destination) but breakflow=%s splitflow=%s dstflow=%s' % (b[:rl].hex(), rt, bk, sp, dt), wit)
        elif want == 'cont' and (bk or sp):
            sh.violation('%s/%s' % ('breakflow' if bk else 'splitflow', mn), 'bytes %s mean "%s" (always continues) but breakflow=%s splitflow=%s' % (b[:rl].hex(), rt, bk, sp), wit)
        if want != 'cont' or (len(b) + b[0] + b[-1]) % 8 == 0:
            for fmt in USE_FORMATS:
                try:
                    ins.__str__(asm_format=fmt) if fmt else str(ins)
                except Exception:
                    sh.counters['A_render_raises(C10)'] += 1
            try:
                again = (flags(ins), ins.getnextflow())
            except Exception as e:
                again = ('raises', type(e).__name__)
            sh.counters['A_requeried_after_use'] += 1
            if again != (f, nf):
                sh.violation('after-use/%s/%s' % ('raises:%s' % again[1] if again[0] == 'raises' else ('classification' if again[0] != f else 'nextflow'), mn if want != 'cont' else 'non-transfer'),
                             'bytes %s (%s): after the instruction was printed in every syntax, (flags, getnextflow) went from %r to %r' % (b[:rl].hex(), rt, (f, nf), again), wit)
        if len(sh.samples) < 3 and want != 'cont':
            sh.sample({'bytes': b[:rl].hex(), 'reference': rt, 'class': want, 'breakflow/splitflow/dstflow': [bk, sp, dt]})


class Virt(object):
    """Virtual 4 GiB+ address space holding one instruction at `base`."""

    def __init__(self, base, data):
        self.base, self.data = base, data

    def __len__(self):
        return (1 << 32) + 64

    def __call__(self, start, stop, section=None):
        out = bytearray()
        for a in range(start, stop):
            i = a - self.base
            out.append(self.data[i] if 0 <= i < len(self.data) else 0x90)
        return bytes(out)


DISP8 = [0, 1, -1, 0x7f, -0x80, 2, -2]
DISP16 = [0, 1, -1, 0x7fff, -0x8000, 0x7f, -0x80, 0x100]
DISP32 = [0, 1, -1, 0x7fffffff, -0x80000000, 0x7fff, -0x8000, 0x10000, -0x10000]
OFFSETS = [0, 1, 0x1000, 0x7fffffff, 0x80000000, 0xfffffff0, 0xfffffff9, 0xfffffffa, 0xfffffffb, 0xfffffffc, 0xfffffffd, 0xfffffffe, 0xffffffff]


def transfer_forms():
    """(name, opcode bytes incl. prefix, displacement width in bits, operand size in bits)."""
    out = []
    for cc in range(16):
        out.append(('jcc%x.rel8' % cc, bytes([0x70 + cc]), 8, 32))
        out.append(('jcc%x.rel32' % cc, bytes([0x0f, 0x80 + cc]), 32, 32))
        out.append(('jcc%x.rel16' % cc, bytes([0x66, 0x0f, 0x80 + cc]), 16, 16))
        out.append(('jcc%x.rel8.o16' % cc, bytes([0x66, 0x70 + cc]), 8, 16))
    out += [('jmp.rel8', b'\xeb', 8, 32), ('jmp.rel32', b'\xe9', 32, 32), ('jmp.rel16', b'\x66\xe9', 16, 16), ('jmp.rel8.o16', b'\x66\xeb', 8, 16),
            ('call.rel32', b'\xe8', 32, 32), ('call.rel16', b'\x66\xe8', 16, 16),
            ('loop', b'\xe2', 8, 32), ('loope', b'\xe1', 8, 32), ('loopne', b'\xe0', 8, 32), ('jecxz', b'\xe3', 8, 32),
            ('loop.a16', b'\x67\xe2', 8, 32), ('jcxz', b'\x67\xe3', 8, 32), ('loop.o16', b'\x66\xe2', 8, 16)]
    # segment-override bytes in front of a transfer (2e/3e are the branch hints, 'cs call' is used as padding): meaning-free
    for pname, pb in (('cs', b'\x2e'), ('ds', b'\x3e'), ('es', b'\x26'), ('fs', b'\x64')):
        out += [('jcc4.rel8.seg', pb + b'\x74', 8, 32), ('jcc5.rel32.seg', pb + b'\x0f\x85', 32, 32), ('jmp.rel8.seg', pb + b'\xeb', 8, 32),
                ('jmp.rel32.seg', pb + b'\xe9', 32, 32), ('call.rel32.seg', pb + b'\xe8', 32, 32), ('loop.seg', pb + b'\xe2', 8, 32)]
    # a legal redundant repetition of the operand-size prefix (and one separated by a branch hint) still means 16-bit operands
    out += [('jmp.rel16.dup66', b'\x66\x66\xe9', 16, 16), ('call.rel16.dup66', b'\x66\x2e\x66\xe8', 16, 16), ('jcc5.rel16.dup66', b'\x66\x66\x0f\x85', 16, 16),
            ('jmp.rel8.dup66', b'\x66\x66\xeb', 8, 16), ('jmp.rel32.dup67', b'\x67\x67\xe9', 32, 32), ('jcc4.rel8.dup66x3', b'\x66\x66\x66\x74', 8, 16)]
    # the other legitimate configuration: a 16-bit code segment (dis(..., attrib={'opmode': u16})), where 66 selects 32-bit operands
    out += [('m16:jmp.rel16', b'\xe9', 16, 16), ('m16:jmp.rel32', b'\x66\xe9', 32, 32), ('m16:jmp.rel8', b'\xeb', 8, 16), ('m16:jmp.rel8.o32', b'\x66\xeb', 8, 32),
            ('m16:call.rel16', b'\xe8', 16, 16), ('m16:call.rel32', b'\x66\xe8', 32, 32), ('m16:jcc4.rel8', b'\x74', 8, 16), ('m16:jcc4.rel8.o32', b'\x66\x74', 8, 32),
            ('m16:jcc5.rel16', b'\x0f\x85', 16, 16), ('m16:jcc5.rel32', b'\x66\x0f\x85', 32, 32), ('m16:loop', b'\xe2', 8, 16)]
    return out


USE_FORMATS = (None, 'intel_syntax noprefix', 'intel_syntax noprefix objdump', 'att_syntax binutils', 'att_syntax objdump')


def part_b(sh, forms, offsets, seed):
    from miasmx.arch.ia32_arch import x86mnemo
    from miasmx.core.bin_stream import bin_stream
    rng = common.rng_for(seed, 'C17b')
    for name, opc, dbits, obits in forms:
        disps = list({8: DISP8, 16: DISP16, 32: DISP32}[dbits])
        disps.append(rng.randrange(-(1 << (dbits - 1)), 1 << (dbits - 1)))
        for d in disps:
            enc = opc + struct.pack({8: '<b', 16: '<h', 32: '<i'}[dbits], d)
            for off in offsets:
                wit = {'part': 'B', 'form': name, 'disp': d, 'offset': off, 'bytes': enc.hex()}
                fam = re.sub(r'jcc[0-9a-f]', 'jcc', name)
                try:
                    bs = bin_stream(Virt(off, enc), off)
                    if name.startswith('m16:'):
                        from miasmx.arch.ia32_reg import x86_afs
                        ins = x86mnemo.dis(bs, {'opmode': x86_afs.u16})
                    else:
                        ins = x86mnemo.dis(bs)
                except Exception as e:
                    sh.case((enc, off), True, cls='B:' + fam)
                    sh.violation('decode-at-offset-raises:%s/%s' % (type(e).__name__, fam), 'dis(%s) at offset 0x%x raised %r' % (enc.hex(), off, e), wit)
                    continue
                if ins is None:
                    sh.case((enc, off), False, cls='B:' + fam)
                    sh.counters['B_rejected:' + fam] += 1
                    continue
                sh.case((enc, off), True, cls='B:' + fam)
                if ins.l != len(enc):
                    # the encoding was built here from the architectural form, so its length is known: a different decoded
                    # length makes the reported fall-through address (offset + length) wrong
                    sh.violation('nextflow/%s/decoded-length' % fam, '%s at 0x%x: decoded length %d, the transfer is %d bytes long, so the fall-through address is wrong' % (
                        enc.hex(), off, ins.l, len(enc)), wit)
                    continue
                if ins.offset != off:
                    sh.violation('offset-not-recorded/%s' % fam, '%s at 0x%x: recorded offset %r' % (enc.hex(), off, ins.offset), wit)
                try:
                    nf = ins.getnextflow()
                    dst = ins.getdstflow()
                    fl = flags(ins)
                except Exception as e:
                    sh.violation('flow-raises:%s/%s' % (type(e).__name__, fam), '%s at 0x%x raised %r' % (enc.hex(), off, e), wit)
                    continue
                if nf != off + len(enc):
                    sh.violation('nextflow/%s' % fam, '%s at 0x%x: getnextflow()=0x%x, expected 0x%x' % (enc.hex(), off, nf, off + len(enc)), wit)
                want = (off + len(enc) + d) % (1 << obits)
                offclass = 'wrap' if off + len(enc) + d >= (1 << 32) or off + len(enc) + d < 0 else 'plain'
                if not (isinstance(dst, list) and len(dst) == 1 and isinstance(dst[0], int) or hasattr(dst[0], '__int__')) or int(dst[0]) != want:
                    sh.violation('target/%s/%s' % (fam, offclass), '%s at 0x%x (disp %d): getdstflow()=%s, architectural target 0x%x' % (
                        enc.hex(), off, d, [hex(int(x)) if hasattr(x, '__int__') else x for x in dst] if isinstance(dst, list) else dst, want), wit)
                exp = 'end' if name.replace('m16:', '').startswith('jmp') else 'split'
                bk, sp, dt = fl
                if exp == 'end' and not (bk and not sp) or exp == 'split' and not (bk and sp and dt):
                    sh.violation('classification/%s' % fam, '%s: breakflow=%s splitflow=%s dstflow=%s' % (enc.hex(), bk, sp, dt), wit)
                # the same object after it has been used: printed in every syntax and queried repeatedly, it must still answer as before
                for fmt in USE_FORMATS:
                    try:
                        ins.__str__(asm_format=fmt) if fmt else str(ins)
                    except Exception:
                        sh.counters['B_render_raises(C10)'] += 1
                try:
                    again = (ins.getnextflow(), [int(x) if hasattr(x, '__int__') else repr(x) for x in ins.getdstflow()], flags(ins), ins.offset, ins.l)
                    first = (nf, [int(x) if hasattr(x, '__int__') else repr(x) for x in dst], fl, off if ins.offset == off else ins.offset, len(enc))
                except Exception as e:
                    again, first = ('raises', type(e).__name__), None
                sh.counters['B_requeried_after_use'] += 1
                if again != first:
                    what = 'raises:%s' % again[1] if first is None else ['nextflow', 'target', 'classification', 'offset', 'length'][[k for k in range(5) if again[k] != first[k]][0]]
                    sh.violation('after-use/%s/%s' % (what, fam), '%s at 0x%x: after the instruction was printed in every syntax and queried again, (getnextflow, getdstflow, flags, offset, l) went from %r to %r' % (
                        enc.hex(), off, first, again), wit)
                if len(sh.samples) < 3:
                    sh.sample({'bytes': enc.hex(), 'offset': hex(off), 'disp': d, 'getdstflow': hex(int(dst[0])) if dst and hasattr(dst[0], '__int__') else str(dst), 'expected': hex(want)})


def shards(tier, seed):
    cl = x86space.cells()
    out = [('cells', i, 16) for i in range(0, len(cl), 16)]
    out += [('prefixes', i, 64) for i in range(0, len(cl), 64)]
    forms = transfer_forms()
    out += [('xfer', i) for i in range(0, len(forms), 8)]
    return out


def run_shard(shard, tier, seed):
    sh = common.Shard()
    if shard[0] == 'xfer':
        forms = transfer_forms()[shard[1]:shard[1] + 8]
        part_b(sh, forms, OFFSETS, seed)
        return sh
    cl = x86space.cells()[shard[1]:shard[1] + shard[2]]
    items = []
    if shard[0] == 'cells':
        for cell in cl:
            for b, cls in x86space.strings_for_cell(cell, tier, seed, prefixes=x86space.STD_PREFIXES, sibs=x86space.SIB_QUICK[:2] if tier == 'quick' else x86space.SIB_QUICK,
                                                    nfill=0 if tier == 'quick' else 1):
                items.append((b, cls))
    else:
        modrms = (0x00, 0x05, 0x44, 0x84, 0xc1, 0xd8, 0xf9, 0x24, 0xe0, 0x10, 0x20, 0x28, 0xd0, 0xe8)
        pf = [b'\x67', b'\xf2', b'\xf3', b'\xf0', b'\x3e', b'\x2e', b'\x64']
        for cell in cl:
            for b, cls in x86space.strings_for_cell(cell, 'quick', seed, prefixes=pf, modrms=modrms, sibs=[0x24], nfill=0):
                items.append((b, cls))
    for i in range(0, len(items), 30000):
        part_a(sh, items[i:i + 30000])
    return sh


def replay(w):
    sh = common.Shard()
    if w.get('part') == 'B':
        forms = [f for f in transfer_forms() if f[0] == w['form']]
        part_b(sh, forms, [w['offset']], 0)
        return [(v['key'], v['detail']) for v in sh.violations if v['witness'].get('disp') == w['disp'] or True]
    b = bytes.fromhex(w['bytes'])
    part_a(sh, [(b, ((9, 9), '', 0, 0, None, 'replay'))])
    return [(v['key'], v['detail']) for v in sh.violations]
