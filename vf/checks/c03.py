"""C03 - assemble/disassemble round trip is a fixpoint.

Metamorphic monitor (miasmX against itself): every candidate b of every accepted generated line
must be decoded with length len(b) and reproduced among asm(str(dis(b))); conversely every
canonical byte string of the C01 space (GNU as applied to the reference disassembly returns it)
that miasmX decodes must be reproduced among the candidates of its own rendering.
"""
import re
from vf import common, gnuref, x86ref, asmgen, x86space
from vf.checks.c02 import SSE_NAMES

PROPERTY = 'C03'
RULE = ('forward: all candidates of all lines of the C02 generator (Intel syntax) that miasmX accepts: dis accepts, consumes len(b), and b is among '
        'asm(str(dis(b))); backward: the C01 byte space (opcode cells x 256 ModRM x SIB/filler classes x prefixes none/66 and a reduced set for 67/segment/rep/lock), '
        'restricted to canonical strings (as --32 applied to objdump\'s Intel text of b returns exactly b) that miasmX decodes with the reference length: '
        'b must be among asm(str(dis(b))). A case = (direction, line/bytes, candidate); non-trivial = the round trip was evaluated (candidate decoded / '
        'string canonical and decoded).')
RULE += ' Round 8: one candidate in four is also decoded from a stream positioned on it inside a larger buffer with nothing after it.'
RULE += ' Round 9: SIB bytes without a base register for every scale x three index registers x displacements that would also fit a byte.'
RULE += ' Round 9: a history shard re-assembles, in one process, the renderings of instructions whose operands the front end rewrites in place (16-bit pushes, lea, prefetch, immediate shuffles) and then takes canonical strings that spell the same operand texts through the converse direction.'
ASSUMPTIONS = ['GNU as/objdump 2.40 only *select* the canonical byte strings of the backward direction; the comparison itself is miasmX against miasmX']


CC = r'(n?[oszpblgac]|n?[abgl]e|n[abgl]|p[eo]|e|ne)'


def family(mn):
    if mn in SSE_NAMES():
        return 'MMX-SSE'
    if re.match(r'^set' + CC + '$', mn):
        return 'setcc'
    if re.match(r'^cmov' + CC + '$', mn):
        return 'cmovcc'
    if re.match(r'^j' + CC + '$', mn):
        return 'jcc'
    return mn


GP_RE = re.compile(r'(?<![\w%\[+*:-])(' + '|'.join(asmgen.R32 + asmgen.R16 + asmgen.R8) + r')(?![\w\]+*:])')


def sse_mechanism(cand, txt, src, is_line):
    """Systematic mechanisms that hit every MMX/SSE row alike (one key each); None = key the row itself.
    src = the assembly line (forward) or the reference's text of the bytes (backward)."""
    if 'seg' in x86ref.prefix_class(cand):
        return 'MMX-SSE+segment-prefix'
    ops = (txt or '').split(None, 1)[1] if len((txt or '').split(None, 1)) > 1 else ''
    if re.search(r'\bds:(0x)?[0-9a-f]+', src) and 'PTR' not in ops and '[' not in ops and re.search(r'(^|,)\s*\d+\s*(,|$)', ops):
        return 'MMX-SSE+absolute-memory-operand-rendered-as-number'
    if is_line:
        lops = src.split(None, 1)[1] if ' ' in src else ''
        outside = re.sub(r'\[[^\]]*\]', '[]', lops)
        if GP_RE.search(outside):
            return 'MMX-SSE+general-register-written-for-a-simd-operand'
    return None


STRING_MN = re.compile(r'^(movs|cmps|lods|stos|scas|ins|outs|xlat)')
SHIFT_MN = re.compile(r'^(rol|ror|rcl|rcr|shl|sal|shr|sar)$')


def seg_family(mn):
    """Segment-override forms are keyed per mnemonic (string instructions and shifts/rotates as groups): a signature-only key
    would hide a newly broken mnemonic behind an unrelated known one."""
    if STRING_MN.match(mn):
        return 'seg-override:string-op'
    if SHIFT_MN.match(mn):
        return 'seg-override:shift-rotate'
    return 'seg-override:' + family(mn)


def asm_safe(text):
    from miasmx.arch.ia32_arch import x86mnemo
    try:
        return x86mnemo.asm(text), None
    except ValueError as e:
        return None, 'ValueError'
    except Exception as e:
        return None, type(e).__name__


def forward(sh, batch):
    from miasmx.arch.ia32_arch import x86mnemo
    for line, mn, shape, v in batch:
        c, err = asm_safe(line)
        if not c:
            continue
        fam = family(mn)
        if fam == 'MMX-SSE':
            fam, shape = 'MMX-SSE:' + mn, '*'      # one key per mnemonic (a family-wide key would hide a newly broken row)
        fam0, shape0 = fam, shape
        for b in c:
            wit = {'dir': 'fwd', 'line': line, 'cand': b.hex()}
            if not b:
                continue
            fam, shape = fam0, shape0
            pcb = x86ref.prefix_class(b)
            if not fam.startswith('MMX-SSE') and 'seg' in pcb:
                fam = seg_family(mn)
            elif not fam.startswith('MMX-SSE') and pcb == '66' and v is not None and -128 <= v < 0 and len(b) >= 3 and b[1] in (0x83, 0x6b):
                fam = 'imm8-sign-extended-16bit'
            sh.case(('fwd', line, b), True, cls='fwd/%s/%s' % (fam, shape))
            try:
                d = x86mnemo.dis(b)
            except Exception as e:
                sh.violation('fwd/%s/%s/dis-raises:%s' % (fam, shape, type(e).__name__), '%r -> candidate %s: dis raised %r' % (line, b.hex(), e), wit)
                continue
            if d is None:
                sh.violation('fwd/%s/%s/dis-rejects' % (fam, shape), '%r -> candidate %s is rejected by dis' % (line, b.hex()), wit)
                continue
            if d.l != len(b):
                sh.violation('fwd/%s/%s/len' % (fam, shape), '%r -> candidate %s decodes with length %d' % (line, b.hex(), d.l), wit)
                continue
            # the candidate placed in a buffer, read through a stream positioned on it (nothing after it): accepted all the same
            if len(b) % 4 == 1:
                from miasmx.core.bin_stream import bin_stream
                try:
                    d2 = x86mnemo.dis(bin_stream(b'\x90' * 7 + b, 7))
                    got = None if d2 is None else (d2.l, bytes(d2.b))
                except Exception as e:
                    got = 'raises %s' % type(e).__name__
                if got != (len(b), b):
                    sh.violation('fwd/stream-at-offset/%s' % ('rejected' if got is None else 'differs'), '%r -> candidate %s read from a stream positioned at offset 7: %r' % (line, b.hex(), got), wit)
            try:
                txt = str(d)
            except Exception as e:
                sh.violation('fwd/%s/%s/render-raises:%s' % (fam, shape, type(e).__name__), '%r -> candidate %s: rendering raised %r' % (line, b.hex(), e), wit)
                continue
            c2, err2 = asm_safe(txt)
            if fam.startswith('MMX-SSE') and (c2 is None or b not in c2):
                fam = sse_mechanism(b, txt, line, True) or fam
            if c2 is None:
                sh.violation('fwd/%s/%s/asm-raises:%s' % (fam, shape, err2), '%r -> %s -> %r which asm rejects (%s)' % (line, b.hex(), txt, err2), wit)
            elif b not in c2:
                sh.violation('fwd/%s/%s/not-reproduced' % (fam, shape), '%r -> %s -> %r -> %s' % (line, b.hex(), txt, [x.hex() for x in c2[:4]]), wit)
            if len(sh.samples) < 3:
                sh.sample({'line': line, 'candidate': b.hex(), 'rendering': txt, 'reassembled': [x.hex() for x in (c2 or [])[:4]]})


def backward(sh, items):
    from miasmx.arch.ia32_arch import x86mnemo
    blobs = [b for b, cls in items]
    ref = gnuref.objdump(blobs)
    sel = []
    for (b, cls), (rl, rt) in zip(items, ref):
        if gnuref.superfluous_prefix(rt) or rl == 0 or rl > len(b) or x86ref.is_rel_branch(rt):
            continue
        sel.append((b[:rl], cls, rt))
    # canonical: as(objdump text) == bytes
    uniq = {}
    for b, cls, rt in sel:
        uniq.setdefault(b, (cls, rt))
    keys = list(uniq)
    asm = gnuref.gas([re.sub(r'\s+', ' ', uniq[b][1]) for b in keys], 'intel')
    for b, (g, msg) in zip(keys, asm):
        cls, rt = uniq[b]
        if g != b:
            sh.counters['not_canonical'] += 1
            continue
        wit = {'dir': 'back', 'bytes': b.hex()}
        try:
            d = x86mnemo.dis(b)
        except Exception:
            sh.counters['dis_raises(C10)'] += 1
            continue
        if d is None or d.l != len(b):
            sh.counters['miasmx_rejects_or_length_differs(C01)'] += 1
            continue
        mn = x86ref.ref_mnemonic(rt)
        sig = x86ref.operand_sig(x86ref.norm_ref_text(rt))
        fam = 'MMX-SSE' if ('xmm' in sig or 'mm' in sig.split(',') or '#' in d.m.name) else family(mn)
        pc0 = x86ref.prefix_class(b)
        if '67' in pc0:
            # 16-bit addressing: the printer's [bx+si] forms are not in the parser's language (one mechanism whatever the mnemonic)
            fam, sig = ('addr16' if fam != 'MMX-SSE' else 'MMX-SSE'), '*'
        if fam == 'MMX-SSE':
            sig = '*'
            if '67' not in pc0:
                fam = 'MMX-SSE:' + d.m.name      # one key per table row (a family-wide key would hide a newly broken row)
        elif 'seg' in pc0:
            fam = seg_family(mn)
        elif pc0 == '66' and (sig.endswith(',i') or sig == 'i') and re.search(r'[, ]0xff[89a-f][0-9a-f]$', rt):
            fam = 'imm8-sign-extended-16bit'   # systematic: 66 83 /r ib forms are not among the candidates of their rendering
        sh.case(('back', b), True, cls='back/%d.%02x/p%s' % (cls[0][0], cls[0][1], cls[1]))
        try:
            txt = str(d)
        except Exception as e:
            sh.counters['render_raises(C10)'] += 1
            continue
        c2, err2 = asm_safe(txt)
        pc = x86ref.seg_detail(x86ref.prefix_class(b), b)
        if fam.startswith('MMX-SSE:') and (c2 is None or b not in c2):
            fam = sse_mechanism(b, txt, rt, False) or fam
        if c2 is None:
            sh.violation('back/%s/%s/p=%s/asm-raises:%s' % (fam, sig, pc, err2), 'bytes %s (%s) render as %r which asm rejects (%s)' % (b.hex(), rt, txt, err2), wit)
        elif b not in c2:
            sh.violation('back/%s/%s/p=%s/not-reproduced' % (fam, sig, pc), 'bytes %s (%s) render as %r which assembles to %s' % (b.hex(), rt, txt, [x.hex() for x in c2[:4]]), wit)
        if len(sh.samples) < 6 and len(sh.samples) >= 3:
            sh.sample({'bytes': b.hex(), 'reference': rt, 'rendering': txt, 'reassembled': [x.hex() for x in (c2 or [])[:3]]})


NPARTS = 96


def shards(tier, seed):
    out = [('fwd', p) for p in range(NPARTS)]
    cl = x86space.cells()
    out += [('back', i, 8) for i in range(0, len(cl), 8)]
    out += [('backp', i, 64) for i in range(0, len(cl), 64)]
    out += [('backgrid', 0, 0), ('history', 0, 0)]
    return out


def run_shard(shard, tier, seed):
    sh = common.Shard()
    if shard[0] == 'fwd':
        forward(sh, list(asmgen.lines(tier, seed, shard[1], NPARTS)))
        return sh
    cl = x86space.cells()[shard[1]:shard[1] + shard[2]]
    items = []
    if shard[0] == 'history':
        # the round trip of a canonical string may not depend on which other lines the process assembled before: first the
        # instructions whose operands the front end rewrites in place (16-bit pushes, lea, prefetch, shuffles with an immediate) are
        # decoded, rendered and re-assembled, then other instructions that spell the very same operand texts
        from miasmx.arch.ia32_arch import x86mnemo
        for h in ('666a04', '66680010', '666a10', '66ff30', '66ff7304', '8d03', '8d4304', '8d0424', '0f1800', '0f184304', '0fc6c105', '660fc5c103', '660fc4c803', '66ff3504000000', '8d0504000000'):
            try:
                asm_safe(str(x86mnemo.dis(bytes.fromhex(h))))
            except Exception:
                pass
        for h in ('66a104000000', 'df0504000000', '66a110000000', 'df0510000000', '66a100100000', '668b00', '668b4304', 'df00', 'df4304', '8b03', '8b4304', '8b0424', 'ff30', '0fb700', '0fb74304',
                  '66c7000500', '66830004', '668b0504000000', 'a104000000', 'db0504000000', '8b00', 'c60005', '0fc6c103', 'dd00', 'd900'):
            b_ = bytes.fromhex(h)
            items.append((b_ + b'\x90' * 6, ((9, b_[0]), '', 0, 0, None, 'history')))
    elif shard[0] == 'backgrid':
        items = list(x86space.sib_grid(tier)) + list(x86space.disp_grid(tier))
    elif shard[0] == 'back':
        for cell in cl:
            for b, cls in x86space.strings_for_cell(cell, tier, seed, prefixes=x86space.STD_PREFIXES, sibs=x86space.SIB_QUICK[:3] if tier == 'quick' else x86space.SIB_QUICK + x86space.SIB_ALL64[::4],
                                                    nfill=0 if tier == 'quick' else 2):
                items.append((b, cls))
    else:
        modrms = (0x00, 0x05, 0x44, 0x84, 0xc1, 0xd8, 0xf9, 0x24)
        pf = [b'\x67', b'\xf2', b'\xf3', b'\xf0', b'\x64', b'\x2e', b'\x66\x67', b'\x26', b'\x36', b'\x3e', b'\x65', b'\x64\xf2', b'\x64\xf3', b'\x2e\x66', b'\x66\xf2']
        for cell in cl:
            for b, cls in x86space.strings_for_cell(cell, 'quick', seed, prefixes=pf, modrms=modrms, sibs=[0x24, 0x65], nfill=0):
                items.append((b, cls))
    for i in range(0, len(items), 20000):
        backward(sh, items[i:i + 20000])
    return sh


def replay(w):
    sh = common.Shard()
    if w.get('dir') == 'fwd':
        forward(sh, [(w['line'], w['line'].split()[0], 'replay', None)])
    else:
        b = bytes.fromhex(w['bytes'])
        backward(sh, [(b + b'\x00' * 4, ((9, 9), '', 0, 0, None, 'replay'))])
    return [(v['key'], v['detail']) for v in sh.violations]
