"""C06 - symbolic evaluation is sound substitution.

Reference-model monitor: eval_abs(state).eval_expr(e, {}) is evaluated by the independent
interpreter under a valuation v of the free symbols and compared with e evaluated under v
extended by the *values* of the bindings (registers) and with the bound memory cells stored
at the values of their addresses.
"""
from vf import common, irsem, exprgen

PROPERTY = 'C06'
RULE = ('(a) random well-typed trees (generator of C05, depth<=4, memory reads at p/q/a + aligned offsets so that cells never overlap) '
        'evaluated in random machine states: each identifier independently constant / symbolic expression / absent, each memory cell the '
        'tree reads independently bound (at exactly its evaluated address expression) to a constant or symbolic expression or left unbound; '
        '(b) all-constant states for every operator of deal_op and every operator the x86 lifter emits, arity 1..5, widths 8/16/32/64, '
        'boundary operands (deterministic grid); (c) n-ary + * ^ & | with 3..5 operands mixing constants and symbols; (e) ((x o2 M) o1 S) + y for all 11x11 pairs of binary operators with M, S bound to boundary constants by the state and x, y symbolic; (d) compositions: 9 slot layouts x every combination of slot kinds (constant, identifier bound to a constant, symbolic identifier, conditional with symbolic / constant condition and constant arms). Values are compared '
        'on 6 valuations. A case = (canonical tree, canonical state); non-trivial = the state binds at least one identifier or cell the '
        'expression reads.')
RULE += " Round 6: machines built with a func_read callback over a fixed backing memory image: cells of several widths at concrete addresses, read back at every width from the same address and at addresses no cell touches, directly and through a pointer the state binds to a constant (reads that start inside a cell are C07's business)."
RULE += ' Round 7: pairs of compositions with one layout that differ in one part chosen to collide under xor-style digests (byte 0 / byte 2 of a value, exchanged arms or operands), under ^ - / & + == and as the arms of a conditional, in 7 states.'
RULE += ' Round 8: the state-bound constants of the pairs shard include every value 0..9.'
RULE += ' Round 10: every case evaluates the same expression object a second time on a new machine with an equal state and judges that result as well; width twins: one expression holding the same shape at two widths (8/16/32/64) over the same identifiers with numerically equal literals, the narrow computation wrapping, as condition and arm, as two summands, xor-ed and composed, narrow first and wide first.'
RULE += ' Round 9: composition slots whose contents are wider than the slot (conditionals with 32-bit constant arms, negations, constants) in the lowest, a middle and the top slot.'
ASSUMPTIONS = ['irsem is the meaning of the IR', 'symbolic bases p/q/const are kept >= 1 MiB apart in every valuation (no aliasing outside the statement)',
               'division by zero / quotient overflow / bsf(0) are not compared']

P_BASE, Q_BASE, A_CONST = 0x10000000, 0x20000000, 0x30000000
OFFSETS = (0, 8, 16, 0x20, 0xfffffff8)


class MemGen(exprgen.Gen):
    """Generator whose memory reads never overlap: base in {p,q,a} + offset from OFFSETS."""

    def memcell(self, w, depth):
        r = self.r
        base = self.ex.ExprId(r.choice(('p32', 'q32', 'a32')), 32)
        off = r.choice(OFFSETS)
        addr = base if (off == 0 and r.random() < 0.5) else self.ex.ExprOp('+', base, exprgen.Int(off, 32))
        return self.ex.ExprMem(addr, w)


def mem_reads(e):
    return [t for t in exprgen.subterms(e) if t.__class__.__name__ == 'ExprMem']


def build_state(rng, e, mode):
    """Returns (state dict for eval_abs, description). mode: 'mixed' | 'allconst'."""
    ex, mi = exprgen.M()
    names = sorted(irsem.free_names(e))
    state = {}
    desc = []
    sym = exprgen.Gen(rng, names=('s', 't'), mem=False)
    a_const = None
    for nm, sz in names:
        if nm in ('p32', 'q32'):
            continue        # free bases, never bound
        x = rng.random()
        if mode == 'allconst' or x < 0.4:
            if nm == 'a32':
                v = A_CONST + rng.choice((0, 0x100, 0x1000))
                a_const = v
            else:
                v = rng.choice(exprgen.boundary(sz)) if rng.random() < 0.6 else rng.getrandbits(sz)
            state[ex.ExprId(nm, sz)] = exprgen.Int(v, sz)
            desc.append('%s=0x%x' % (nm, v))
        elif x < 0.7 and nm != 'a32':
            b = sym.gen(sz, rng.choice((0, 1, 1, 2)))
            state[ex.ExprId(nm, sz)] = b
            desc.append('%s=%s' % (nm, b))
    # memory cells: one size per distinct evaluated address, no overlap by construction
    by_addr = {}
    for m in mem_reads(e):
        b_ = m.arg if m.arg.__class__.__name__ == 'ExprId' else m.arg.args[0]
        o_ = 0 if m.arg.__class__.__name__ == 'ExprId' else int(m.arg.args[1].arg)
        by_addr.setdefault((b_.name, o_), []).append(m)      # (p+0) and p are the same address
    for ca, ms in sorted(by_addr.items()):
        sizes = set(m.size for m in ms)
        if len(sizes) != 1:
            continue                      # mixed-size reads of one address are C07's business
        m = ms[0]
        base = m.arg if m.arg.__class__.__name__ == 'ExprId' else m.arg.args[0]
        off = 0 if m.arg.__class__.__name__ == 'ExprId' else int(m.arg.args[1].arg)
        if base.name == 'a32':
            if a_const is None:
                continue                  # a32 symbolic or absent: leave the cell unbound
            key_addr = exprgen.Int((a_const + off) & 0xffffffff, 32)
        else:
            key_addr = m.arg if off == 0 and m.arg.__class__.__name__ == 'ExprId' else ex.ExprOp('+', ex.ExprId(base.name, 32), exprgen.Int(off, 32))
            if off == 0 and m.arg.__class__.__name__ != 'ExprId':
                key_addr = ex.ExprId(base.name, 32)    # (p+0) evaluates to p
        x = rng.random()
        if mode == 'allconst' or x < 0.4:
            v = rng.getrandbits(m.size)
            state[ex.ExprMem(key_addr, m.size)] = exprgen.Int(v, m.size)
            desc.append('%s=0x%x' % (ex.ExprMem(key_addr, m.size), v))
        elif x < 0.7:
            b = sym.gen(m.size, rng.choice((0, 1, 2)))
            state[ex.ExprMem(key_addr, m.size)] = b
            desc.append('%s=%s' % (ex.ExprMem(key_addr, m.size), b))
    return state, desc


def state_canon(state):
    return sorted((exprgen.canon(k), exprgen.canon(v)) for k, v in state.items())


def make_envs(seedtag, n=6):
    envs = []
    for i in range(n):
        env = irsem.Env(seed=(seedtag, i))
        env.ids['p32'] = P_BASE + (env._h('p') & 0xffff0)
        env.ids['q32'] = Q_BASE + (env._h('q') & 0xffff0)
        envs.append(env)
    return envs


def apply_state(state, env):
    """Valuation extended by the values of the bindings."""
    env2 = env.copy()
    for k, b in state.items():
        if k.__class__.__name__ == 'ExprId':
            env2.ids[k.name] = irsem.evaluate(b, env)
    for k, b in state.items():
        if k.__class__.__name__ == 'ExprMem':
            env2.store(irsem.evaluate(k.arg, env), k.size // 8, irsem.evaluate(b, env))
    return env2


BACKING = 'C06-backing-memory'
CALLBACKS = {'n': 0}


def backing_read(machine, a):
    """A func_read callback: the content of concrete memory the state does not bind (what a loader gives to the evaluator)."""
    CALLBACKS['n'] += 1
    env = irsem.Env(seed=0)
    env.memseed = BACKING
    return exprgen.Int(env.load(int(a.arg.arg), a.size // 8), a.size)


def evaluate_real(e, state, backing=False, second=None):
    from miasmx.expression.expression_eval_abstract import eval_abs
    st = dict((exprgen.fresh_copy(k), exprgen.fresh_copy(v)) for k, v in state.items())
    m = eval_abs(st, func_read=backing_read) if backing else eval_abs(st)
    ec = exprgen.fresh_copy(e)
    r = m.eval_expr(ec, {})
    if second is not None:
        # the same expression object evaluated once more, on a new machine with an equal state (an evaluation may not leave
        # anything behind in the caller's tree that changes what it means)
        st2 = dict((exprgen.fresh_copy(k), exprgen.fresh_copy(v)) for k, v in state.items())
        m2 = eval_abs(st2, func_read=backing_read) if backing else eval_abs(st2)
        try:
            second.append(m2.eval_expr(ec, {}))
        except Exception as exn:
            second.append(exn)
    return r


def judge(e, state, seedtag, want_const=False, backing=False):
    """Returns None or (kind, detail, result)."""
    second = []
    try:
        r = evaluate_real(e, state, backing, second)
    except Exception as ex:
        # evaluator's own "undefined" signals are not violations when the reference agrees
        if isinstance(ex, ValueError) and ('div by 0' in str(ex) or 'Divide Error' in str(ex)):
            return ('undefined', '', None)
        return ('raises:%s' % type(ex).__name__, repr(ex)[:160], None)
    if not hasattr(r, 'visit'):
        return ('result-not-expr', repr(r)[:100], None)
    try:
        we = irsem.width(e)
        wr = irsem.width(r)
    except irsem.IllFormed as ex:
        return ('ill-formed', repr(ex), r)
    if wr != we:
        return ('width', 'expression %d bits, result %d bits (%s)' % (we, wr, r), r)
    any_cmp = False
    for env in make_envs(seedtag):
        if backing:
            env.memseed = BACKING
        try:
            env2 = apply_state(state, env)
            want = irsem.evaluate(e, env2)
        except (irsem.Undefined, irsem.Uninterpreted):
            continue
        try:
            got = irsem.evaluate(r, env)
        except (irsem.Undefined, irsem.Uninterpreted):
            continue
        except irsem.IllFormed as ex:
            return ('ill-formed', repr(ex), r)
        any_cmp = True
        if got != want:
            return ('value', 'result %s evaluates to 0x%x, substitution gives 0x%x' % (r, got, want), r)
    if want_const and any_cmp and r.__class__.__name__ != 'ExprInt':
        return ('not-constant', 'all inputs constant but the result is %s' % r, r)
    if not any_cmp:
        return ('uncompared', '', r)
    # the second evaluation of the same object (first one was right)
    r2 = second[0] if second else None
    if isinstance(r2, Exception):
        return ('second-evaluation/raises:%s' % type(r2).__name__, 'the first evaluation of the object gives %s, a second one (new machine, equal state) raises %r' % (r, r2), r)
    if r2 is not None and hasattr(r2, 'visit'):
        try:
            if irsem.width(r2) != we:
                return ('second-evaluation/width', 'the first evaluation of the object gives %s, a second one (new machine, equal state) gives %s of %d bits' % (r, r2, irsem.width(r2)), r2)
            for env in make_envs(seedtag):
                if backing:
                    env.memseed = BACKING
                try:
                    want = irsem.evaluate(e, apply_state(state, env))
                    got = irsem.evaluate(r2, env)
                except (irsem.Undefined, irsem.Uninterpreted):
                    continue
                if got != want:
                    return ('second-evaluation/value', 'the first evaluation of the object gives %s, a second one (new machine, equal state) gives %s = 0x%x, substitution gives 0x%x' % (r, r2, got, want), r2)
        except irsem.IllFormed as ex:
            return ('second-evaluation/ill-formed', repr(ex), r2)
    return None


def child_class(t, state):
    """Classify each operand of the root by what it evaluates to in the state: C constant / S symbolic."""
    def cls(c):
        try:
            r = evaluate_real(c, state)
            return 'C' if r.__class__.__name__ == 'ExprInt' else 'S'
        except Exception:
            return 'E'
    k = t.__class__.__name__
    if k == 'ExprOp':
        kids = [cls(a) for a in t.args]
        if t.op in exprgen.AC and len(kids) > 2:
            return 'Op%s/n=%d(%s)' % (t.op, len(kids), ''.join(sorted(set(kids))))
        return 'Op%s(%s)' % (t.op, ','.join(kids))
    if k == 'ExprSlice':
        return 'Slice(%s:%s)' % (t.arg.__class__.__name__[4:], cls(t.arg))
    if k == 'ExprCompose':
        return 'Compose(%s)' % ''.join(sorted(set(cls(a[0]) + ('cond' if a[0].__class__.__name__ == 'ExprCond' else '') for a in t.args)))
    if k == 'ExprCond':
        return 'Cond(%s)' % cls(t.cond)
    if k == 'ExprMem':
        bound = any(kk.__class__.__name__ == 'ExprMem' for kk in state)
        return 'Mem(addr:%s%s)' % (cls(t.arg), ',cells-bound' if bound else '')
    return k[4:]


def check_case(sh, e, state, seedtag, origin, want_const=False, backing=False):
    c = exprgen.canon(e)
    sc = state_canon(state)
    reads = set(nm for nm, sz in irsem.free_names(e))
    binds = any((k.__class__.__name__ == 'ExprId' and k.name in reads) or k.__class__.__name__ == 'ExprMem' for k in state)
    r = judge(e, state, seedtag, want_const, backing)
    sh.case((c, sc), nontrivial=binds and (r is None or r[0] not in ('uncompared', 'undefined')), cls='%s:%s' % (origin, e.op if e.__class__.__name__ == 'ExprOp' else e.__class__.__name__))
    if r is None:
        return
    if r[0] in ('uncompared', 'undefined'):
        sh.counters['skipped_' + r[0]] += 1
        return
    # shrink to the smallest failing sub-tree (same state)
    best = (exprgen.count_nodes(e), e, r)
    seen = set()
    for t in exprgen.subterms(e):
        ct = exprgen.canon(t)
        if ct in seen:
            continue
        seen.add(ct)
        n = exprgen.count_nodes(t)
        if n >= best[0]:
            continue
        rt = judge(t, state, seedtag, want_const, backing)
        if rt is not None and rt[0] not in ('uncompared', 'undefined'):
            best = (n, t, rt)
    t, rt = best[1], best[2]
    import re
    key = '%s%s/%s' % ('func_read:' if backing else '', re.sub(r'(Op[a-z]+?)(08|8|16|32)', r'\1N', child_class(t, state)), rt[0])
    sh.violation(key, 'eval_expr(%s) in state {%s}: %s [minimal failing sub-tree %s: %s]' % (
        e, ', '.join('%s: %s' % (k, v) for k, v in state.items()), r[1], t, rt[1]),
        {'tree': c, 'state': sc, 'want_const': want_const, 'backing': backing})


LIFTER_OPS = ['+', '-', '*', '&', '|', '^', '<<', '>>', 'a>>', '<<<', '>>>', '==', 'parity', '!',
              '<<<c_rez', '<<<c_cf', '>>>c_rez', '>>>c_cf', 'bsf', 'bsr', 'umul08', 'imul08',
              'umul16_lo', 'umul16_hi', 'umul32_lo', 'umul32_hi', 'imul16_lo', 'imul16_hi', 'imul32_lo', 'imul32_hi',
              'div8', 'div16', 'div32', 'rem8', 'rem16', 'rem32', 'idiv8', 'idiv16', 'idiv32', 'irem8', 'irem16', 'irem32']


def const_grid():
    """Deterministic all-constant cases: (operator, widths, operand values)."""
    ex, mi = exprgen.M()
    out = []
    for op in LIFTER_OPS:
        if op in exprgen.AC:
            shapes = [(w,) * n for w in (8, 16, 32, 64) for n in (2, 3, 4, 5)]
        elif op == '-':
            shapes = [(w,) * n for w in (8, 16, 32, 64) for n in (1, 2)]
        elif op in ('parity', '!', 'bsf', 'bsr'):
            shapes = [(w,) for w in (8, 16, 32)]
        elif op in ('<<', '>>', 'a>>', '<<<', '>>>'):
            shapes = [(w, w) for w in (8, 16, 32, 64)] + [(32, 8), (16, 8)]
        elif op == '==':
            shapes = [(w, w) for w in (8, 16, 32, 64)]
        elif op.endswith('c_rez') or op.endswith('c_cf'):
            shapes = [(w, 8, 1) for w in (8, 16, 32)] + [(w, w, 1) for w in (16, 32)]
        elif op in ('umul08', 'imul08'):
            shapes = [(32, 8)]
        elif 'mul' in op:
            n = int(op[4:6])
            shapes = [(n, n)]
        else:
            n = int(''.join(ch for ch in op if ch.isdigit()))
            shapes = [(n, n, n)]
        for sh_ in shapes:
            out.append((op, sh_))
    return out


COMPOSE_LAYOUTS = [((0, 8), (8, 32)), ((0, 16), (16, 32)), ((0, 1), (1, 32)), ((0, 8), (8, 16), (16, 32)), ((0, 1), (1, 8), (8, 32)),
                   ((0, 8), (8, 16)), ((0, 32), (32, 64)), ((0, 8), (8, 16), (16, 64)), ((0, 8), (8, 16), (16, 24), (24, 32)),
                   ((0, 64), (64, 128)), ((0, 32), (32, 64), (64, 128)), ((0, 32), (32, 64), (64, 96), (96, 128))]      # xmm-sized values
SLOT_KINDS = ('int', 'cond-sym', 'id-const', 'id-sym', 'cond-const')


PAIR_OPS = ('+', '-', '*', '^', '&', '|', '<<', '>>', 'a>>', '<<<', '>>>')


def compose_cases():
    """Deterministic (layout, kind per slot) grid: every combination of slot kinds for every layout."""
    import itertools
    out = []
    for lay in COMPOSE_LAYOUTS:
        kinds = SLOT_KINDS if len(lay) < 4 else ('int', 'cond-sym', 'id-const')
        if lay[-1][1] == 128:
            kinds = ('int', 'id-const', 'id-sym')
        for ks in itertools.product(kinds, repeat=len(lay)):
            out.append((lay, ks))
    return out


def build_compose(lay, ks, rng):
    """ExprCompose whose slots are constants, identifiers bound to constants / left symbolic, conditionals with a symbolic or
    constant condition and constant arms. Returns (expression, state)."""
    ex, mi = exprgen.M()
    args, state = [], {}
    for n, ((a, b), k) in enumerate(zip(lay, ks)):
        w0 = b - a
        w = min(x for x in (1, 8, 16, 32, 64, 128) if x >= w0)      # odd slot widths are filled with a slice of the next standard width

        def const():
            return rng.choice([v for v in exprgen.boundary(w) if v] or [1]) if rng.random() < 0.7 else (rng.getrandbits(w) or 1)
        if k == 'int':
            t = exprgen.Int(const(), w)
        elif k in ('id-const', 'id-sym'):
            t = ex.ExprId('k%d_%d' % (n, w), w)
            if k == 'id-const':
                state[t] = exprgen.Int(const(), w)
        else:
            c = ex.ExprId('c%d' % n, 1 if rng.random() < 0.5 else 32)
            if k == 'cond-const':
                state[c] = exprgen.Int(rng.choice((0, 1)), c.size)
            arms = []
            for j in range(2):
                if rng.random() < 0.5:
                    arms.append(exprgen.Int(const(), w))
                else:
                    i_ = ex.ExprId('m%d_%d_%d' % (n, j, w), w)
                    state[i_] = exprgen.Int(const(), w)
                    arms.append(i_)
            t = ex.ExprCond(c, arms[0], arms[1])
        if w != w0:
            t = ex.ExprSlice(t, 0, w0)
        args.append((t, a, b))
    return ex.ExprCompose(args), state


def operand_values(w, rng, k):
    vals = exprgen.boundary(w)
    rng.shuffle(vals)
    return vals[:k] + [rng.getrandbits(w) for _ in range(2)]


def shards(tier, seed):
    grid = const_grid()
    out = [('grid', i) for i in range(len(grid))]
    n = 64 if tier == 'quick' else 1600
    out += [('rand', i) for i in range(n)]
    out += [('nary', i) for i in range(8 if tier == 'quick' else 64)]
    out += [('compose', i) for i in range(0, len(compose_cases()), 64)]
    out += [('pairs', w, o1) for w in (8, 32) for o1 in PAIR_OPS]
    out += [('backing', i) for i in range(4)]
    out += [('cmptwins', 0)]
    out += [('widthtwins', 0)]
    return out


def width_twin_cases():
    """One expression holding the same shape at two widths over the same identifiers with numerically equal literals, chosen so
    that the narrow computation wraps and the wide one does not (an evaluation cache or an equality that does not look at the
    width of a literal hands the narrow result to the wide occurrence, or the other way round)."""
    ex, mi = exprgen.M()
    I = exprgen.Int
    c, d = ex.ExprId('c1', 1), ex.ExprId('d32', 32)

    def shapes(w):
        m = irsem.mask(w)
        top = 1 << (w - 1)
        return [
            ('cond+1', lambda W: ex.ExprOp('+', ex.ExprCond(c, I(m, W), I(0, W)), I(1, W))),
            ('k+k', lambda W: ex.ExprOp('+', I(m, W), I(1, W))),
            ('cond*2', lambda W: ex.ExprOp('*', ex.ExprCond(c, I(top, W), I(1, W)), I(2, W))),
            ('k<<1', lambda W: ex.ExprOp('<<', I(top | 1, W), I(1, W))),
            ('-k', lambda W: ex.ExprOp('-', I(top, W))),
            ('cond-1', lambda W: ex.ExprOp('-', ex.ExprCond(c, I(0, W), I(5, W)), I(1, W))),
            ('k>>>1', lambda W: ex.ExprOp('>>>', I(1, W), I(1, W))),
            ('cond^k', lambda W: ex.ExprOp('+', ex.ExprOp('^', ex.ExprCond(d, I(m, W), I(3, W)), I(0, W)), I(m, W))),
        ]
    out = []
    for w1, w2 in ((8, 16), (8, 32), (16, 32), (8, 64), (32, 64), (16, 64)):
        for name, f in shapes(w1):
            lo, hi = f(w1), f(w2)
            zlo = ex.ExprCompose([(lo, 0, w1), (ex.ExprSlice(I(0, w2), w1, w2), w1, w2)])
            shi = ex.ExprSlice(hi, 0, w1)
            exprs = [
                ('cond-narrow-first', ex.ExprCond(lo, I(0, w2), hi)),
                ('cond-wide-first', ex.ExprCond(hi, lo, I(1, w1))),
                ('sum-narrow-first', ex.ExprOp('+', zlo, hi)),
                ('sum-wide-first', ex.ExprOp('+', hi, zlo)),
                ('xor-slices', ex.ExprOp('^', lo, shi)),
                ('compose', ex.ExprCompose([(lo, 0, w1), (ex.ExprSlice(hi, w1, w2), w1, w2)])),
            ]
            for sname, st in (('c=1', {c: I(1, 1), d: I(7, 32)}), ('c=0', {c: I(0, 1), d: I(0, 32)}), ('c-free', {})):
                for ename, e in exprs:
                    out.append((e, st, ('wt', w1, w2, name, ename, sname)))
    # compositions of slices that are adjacent in their source (the simplifier merges them), the source absent from the state,
    # bound to a symbol or to a constant: what the second evaluation of the same object sees must still be the same value
    x32, y32, x64 = ex.ExprId('x32', 32), ex.ExprId('y32', 32), ex.ExprId('x64', 64)
    S, Cm = ex.ExprSlice, ex.ExprCompose
    adj = [
        ('8+8|16', Cm([(S(x32, 0, 8), 0, 8), (S(x32, 8, 16), 8, 16), (S(y32, 0, 16), 16, 32)])),
        ('16|8+8', Cm([(S(y32, 0, 16), 0, 16), (S(x32, 16, 24), 16, 24), (S(x32, 24, 32), 24, 32)])),
        ('8+8+8+8', Cm([(S(x32, 0, 8), 0, 8), (S(x32, 8, 16), 8, 16), (S(x32, 16, 24), 16, 24), (S(x32, 24, 32), 24, 32)])),
        ('16+16', Cm([(S(x32, 0, 16), 0, 16), (S(x32, 16, 32), 16, 32)])),
        ('shifted 8+8', Cm([(S(y32, 0, 8), 0, 8), (S(x32, 8, 16), 8, 16), (S(x32, 16, 24), 16, 24), (S(y32, 24, 32), 24, 32)])),
        ('1+1 bits', Cm([(S(x32, 0, 1), 0, 1), (S(x32, 1, 2), 1, 2), (S(y32, 2, 32), 2, 32)])),
        ('64: 16+16|32', Cm([(S(x64, 16, 32), 0, 16), (S(x64, 32, 48), 16, 32), (S(y32, 0, 32), 32, 64)])),
        ('under +', ex.ExprOp('+', Cm([(S(x32, 0, 8), 0, 8), (S(x32, 8, 16), 8, 16), (S(y32, 0, 16), 16, 32)]), y32)),
        ('arm of cond', ex.ExprCond(S(y32, 0, 1), Cm([(S(x32, 8, 16), 0, 8), (S(x32, 16, 24), 8, 16), (S(x32, 0, 16), 16, 32)]), x32)),
    ]
    sym = ex.ExprId('s32', 32)
    for name, e in adj:
        for sname, st in (('absent', {y32: I(0xAABBCCDD, 32)}), ('symbol', {x32: ex.ExprOp('+', sym, I(1, 32)), x64: ex.ExprId('s64', 64), y32: I(0xAABBCCDD, 32)}),
                          ('const', {x32: I(0x11223344, 32), x64: I(0x1122334455667788, 64), y32: I(0xAABBCCDD, 32)}), ('empty', {})):
            out.append((e, st, ('adj', name, sname)))
    return out


def compose_twin_cases():
    """Two compositions with the same slot layout that differ only in one part, the two parts chosen to look alike to a digest
    (byte 0 / byte 2 of one value, bit 0 / bit 2, exchanged arms of a conditional, exchanged operands of a subtraction),
    combined by ^ - | & + or placed as the two arms of a conditional, under states that bind the value, the condition or
    the untouched slot."""
    ex, mi = exprgen.M()
    I = exprgen.Int
    x, y = ex.ExprId('x32', 32), ex.ExprId('y32', 32)
    c1 = ex.ExprId('c1', 1)
    d8, d16 = ex.ExprId('d8', 8), ex.ExprId('d16', 16)
    a8, b8 = ex.ExprId('a8', 8), ex.ExprId('b8', 8)
    part_pairs = [(ex.ExprSlice(x, 0, 8), ex.ExprSlice(x, 16, 24)), (ex.ExprSlice(x, 8, 16), ex.ExprSlice(x, 24, 32)), (ex.ExprSlice(x, 4, 12), ex.ExprSlice(x, 6, 14)),
                  (ex.ExprCond(c1, a8, b8), ex.ExprCond(c1, b8, a8)), (ex.ExprOp('-', a8, b8), ex.ExprOp('-', b8, a8)),
                  (ex.ExprOp('<<', a8, b8), ex.ExprOp('<<', b8, a8)), (ex.ExprMem(x, 8), ex.ExprMem(y, 8))]
    bit_pairs = [(ex.ExprSlice(x, 0, 1), ex.ExprSlice(x, 2, 3)), (ex.ExprSlice(x, 4, 5), ex.ExprSlice(x, 6, 7))]
    states = [{}, {x: I(0x11223344, 32)}, {x: ex.ExprOp('+', y, I(0x01020304, 32))}, {d8: I(0x5a, 8), d16: I(0x1234, 16)}, {c1: I(0, 1), a8: I(3, 8)}, {a8: I(0x80, 8), b8: I(0x7f, 8)},
              {x: I(0x00ff00ff, 32), d8: I(0, 8)}]
    n = 0
    for p1, p2 in part_pairs:
        for lay in ('low', 'high'):
            mk = (lambda p: ex.ExprCompose([(p, 0, 8), (d8, 8, 16)])) if lay == 'low' else (lambda p: ex.ExprCompose([(d16, 0, 16), (d8, 16, 24), (p, 24, 32)]))
            C1, C2 = mk(p1), mk(p2)
            exprs = [ex.ExprOp(o, C1, C2) for o in ('^', '-', '|', '&', '+')] + [ex.ExprOp('+', C1, ex.ExprOp('-', C2)), ex.ExprCond(c1, C1, C2), ex.ExprOp('==', C1, C2)]
            for e in exprs:
                for st in states:
                    yield e, dict(st), ('ct', n)
                    n += 1
    # slot contents wider than their slot (the lifter writes cond ? 0xffffffff : 0 into byte and word slots: the slot takes the
    # low bits), in the lowest, a middle and the top slot, next to constant and symbolic neighbours
    ALL1, ZERO = I(0xffffffff, 32), I(0, 32)
    k8, k16, k24 = I(0x56, 8), I(0x1234, 16), ex.ExprSlice(I(0x12345678, 32), 8, 32)
    wide = [ex.ExprCond(c1, ALL1, ZERO), ex.ExprCond(c1, I(0x12345, 32), I(0x10000, 32)), ex.ExprCond(ex.ExprSlice(x, 31, 32), ALL1, ZERO), ex.ExprOp('-', x), I(0xabcdef12, 32)]
    for wd in wide:
        for e in (ex.ExprCompose([(wd, 0, 8), (k24, 8, 32)]), ex.ExprCompose([(k8, 0, 8), (wd, 8, 16), (k16, 16, 32)]), ex.ExprCompose([(k16, 0, 16), (wd, 16, 32)]),
                  ex.ExprCompose([(wd, 0, 16), (k16, 16, 32)]), ex.ExprCompose([(wd, 0, 8), (d8, 8, 16), (k16, 16, 32)]), ex.ExprCompose([(wd, 0, 1), (ex.ExprSlice(ZERO, 1, 32), 1, 32)])):
            for st in ({}, {c1: I(1, 1)}, {x: I(0x80000001, 32)}, {d8: I(0x7f, 8)}):
                yield e, dict(st), ('ct', n)
                n += 1
    z7 = ex.ExprId('z7', 7)
    for p1, p2 in bit_pairs:
        C1, C2 = ex.ExprCompose([(p1, 0, 1), (z7, 1, 8)]), ex.ExprCompose([(p2, 0, 1), (z7, 1, 8)])
        for e in [ex.ExprOp(o, C1, C2) for o in ('^', '-', '|', '&')] + [ex.ExprCond(c1, C1, C2)]:
            for st in states[:3]:
                yield e, dict(st), ('ct', n)
                n += 1


def backing_cases(rng, part):
    """Machines with a func_read callback (concrete memory the state does not bind comes from the callback): cells of several
    widths at concrete addresses, read back at every offset and width, whole, partially, straddling two cells or a cell and
    backing memory, directly and through a pointer the state binds to a constant."""
    ex, mi = exprgen.M()
    I = exprgen.Int
    base = (0x1000, 0x40000, 0x7ffffff0, 0xfffffff0)[part]
    layouts = [[(0, 32), (8, 8), (16, 16)], [(0, 8), (1, 8), (2, 16)], [(0, 16), (4, 32)], [(4, 32), (8, 32)], [(0, 64)], [(3, 8)]]
    for lay in layouts:
        for valkind in ('sym', 'const'):
            state = {}
            for off, w in lay:
                v = ex.ExprId('v%d_%d' % (w, off), w) if valkind == 'sym' else I(rng.getrandbits(w), w)
                state[ex.ExprMem(I((base + off) & 0xffffffff, 32), w)] = v
            p = ex.ExprId('p32', 32)
            for off in range(-4, 20):
                for w in (8, 16, 32, 64):
                    # C06 quantifies over same-address cells: the read starts where a bound cell starts (any width), or touches
                    # no bound cell at all; reads that start inside a cell or run into one from below are C07's business
                    same = any(off == o_ for o_, w_ in lay)
                    disjoint = all(off + w // 8 <= o_ or o_ + w_ // 8 <= off for o_, w_ in lay)
                    if not (same or disjoint):
                        continue
                    addr = (base + off) & 0xffffffff
                    yield ex.ExprMem(I(addr, 32), w), dict(state), (part, tuple(lay), valkind, off, w, 'direct')
                    if off % 3 == 0:
                        st2 = dict(state)
                        st2[p] = I((base - 16) & 0xffffffff, 32)
                        yield ex.ExprMem(ex.ExprOp('+', p, I((off + 16) & 0xffffffff, 32)), w), st2, (part, tuple(lay), valkind, off, w, 'pointer')
            # and inside an operation, so that the loaded value is used
            o0 = lay[0][0]
            yield ex.ExprOp('+', ex.ExprMem(I((base + o0) & 0xffffffff, 32), 8), ex.ExprMem(I((base + 64) & 0xffffffff, 32), 8)), dict(state), (part, tuple(lay), valkind, 'sum')


def run_shard(shard, tier, seed):
    ex, mi = exprgen.M()
    sh = common.Shard()
    if shard[0] == 'grid':
        op, widths = const_grid()[shard[1]]
        rng = common.rng_for(0, 'C06grid', op, widths)      # deterministic: structure and boundary values do not depend on the seed
        rng2 = common.rng_for(seed, 'C06grid', op, widths)
        names = ['u', 'v', 'w', 'x', 'y']
        ids = [ex.ExprId('%s%d' % (names[i], w), w) for i, w in enumerate(widths)]
        e = ex.ExprOp(op, *ids)
        combos = []
        per = [sorted(set(exprgen.boundary(w)))[:] for w in widths]
        n = 60 if tier == 'quick' else 400
        for i in range(n):
            r = rng if i < n // 2 else rng2
            combos.append(tuple(r.choice(p) if r.random() < 0.75 else r.getrandbits(w) for p, w in zip(per, widths)))
        # always include the all-zero, all-one, all-ones rows
        combos += [tuple(0 for _ in widths), tuple(1 for _ in widths), tuple(irsem.mask(w) for w in widths),
                   tuple((1 << (w - 1)) for w in widths), tuple(((1 << (w - 1)) | 1) if i == 0 else 1 for i, w in enumerate(widths)),
                   tuple((4 if i == 1 else irsem.mask(w) - 1) for i, w in enumerate(widths))]
        for vals in combos:
            state = dict((i_, exprgen.Int(v, i_.size)) for i_, v in zip(ids, vals))
            check_case(sh, e, state, ('g', op, vals), 'const', want_const=True)
        sh.sample({'operator': op, 'widths': widths, 'state': [hex(v) for v in combos[0]], 'result': _safe_str(e, dict((i_, exprgen.Int(v, i_.size)) for i_, v in zip(ids, combos[0])))}, 1)
        return sh
    rng = common.rng_for(seed, 'C06', shard[0], shard[1])
    if shard[0] == 'widthtwins':
        for e, state, tag in width_twin_cases():
            if irsem.typecheck(e):
                sh.counters['widthtwins_ill_typed_template'] += 1
                continue
            check_case(sh, e, state, tag, 'width-twins', want_const=False)     # values only: the zero-extension slots are 24/48/56 bits wide and the library has no constants of those widths
        return sh
    if shard[0] == 'cmptwins':
        for e, state, tag in compose_twin_cases():
            if irsem.typecheck(e):
                continue
            check_case(sh, e, state, tag, 'compose-twins', want_const=False)
        return sh
    if shard[0] == 'backing':
        CALLBACKS['n'] = 0
        for e, state, tag in backing_cases(rng, shard[1]):
            check_case(sh, e, state, ('b',) + tag, 'func_read', want_const=False, backing=True)
        sh.counters['func_read_callbacks_observed'] += CALLBACKS['n']
        return sh
    if shard[0] == 'pairs':
        # (x o2 M) o1 S under an enclosing node, M and S bound to boundary constants by the state, x (and y) symbolic: the
        # partially evaluated operand is handed to the simplifier with constants that only the state provides
        w, o1 = shard[1], shard[2]
        K = sorted(set(v & irsem.mask(w) for v in (0, 1, w - 1, w, irsem.mask(w), 1 << (w - 1), 0x10, 4, 2, 3, 5, 6, 7, 8, 9, 0x20, 0x40)))
        x, y = ex.ExprId('x%d' % w, w), ex.ExprId('y%d' % w, w)
        M, S_ = ex.ExprId('m%d' % w, w), ex.ExprId('s%d' % w, w)
        for o2 in PAIR_OPS:
            for m in K:
                for s_ in K:
                    state = {M: exprgen.Int(m, w), S_: exprgen.Int(s_, w)}
                    e = ex.ExprOp('+', ex.ExprOp(o1, ex.ExprOp(o2, x, M), S_), y)
                    check_case(sh, e, state, ('p', w, o1, o2, m, s_), 'pairs', want_const=False)
        return sh
    if shard[0] == 'compose':
        for n, (lay, ks) in enumerate(compose_cases()[shard[1]:shard[1] + 64]):
            for rep in range(3 if tier == 'quick' else 12):
                e, state = build_compose(lay, ks, rng)
                check_case(sh, e, state, (seed, 'c', shard[1], n, rep), 'compose', want_const=False)
            if len(sh.samples) < 1:
                sh.sample({'expression': str(e), 'state': sorted('%s=%s' % (k, v) for k, v in state.items()), 'result': _safe_str(e, state)})
        return sh
    if shard[0] == 'nary':
        for i in range(150):
            w = rng.choice((8, 16, 32, 64))
            op = rng.choice(exprgen.AC)
            n = rng.choice((3, 4, 5))
            ids = [ex.ExprId('%s%d' % (nm, w), w) for nm in ('u', 'v', 'w', 'x', 'y')[:n]]
            e = ex.ExprOp(op, *ids)
            state = {}
            for i_ in ids:
                x = rng.random()
                if x < 0.6:
                    state[i_] = exprgen.Int(rng.choice(exprgen.boundary(w)) if rng.random() < 0.5 else rng.getrandbits(w), w)
                elif x < 0.8:
                    state[i_] = ex.ExprId('s%d' % w, w)
            check_case(sh, e, state, (seed, 'n', shard[1], i), 'nary', want_const=(len(state) == n and all(v.__class__.__name__ == 'ExprInt' for v in state.values())))
        return sh
    g = MemGen(rng, ops=('+', '*', '^', '&', '|'))
    for i in range(40 if tier == 'quick' else 80):
        w = rng.choice((8, 16, 32, 32, 64))
        e = g.gen(w, rng.choice((1, 2, 2, 3, 3, 4)))
        if irsem.typecheck(e):
            continue
        for mode in ('mixed', 'mixed', 'allconst'):
            state, desc = build_state(rng, e, mode)
            check_case(sh, e, state, (seed, shard[1], i, mode), 'rand', want_const=False)
            if len(sh.samples) < 3 and state:
                sh.sample({'expression': str(e), 'state': desc, 'result': _safe_str(e, state)})
    return sh


def _safe_str(e, state):
    try:
        return str(evaluate_real(e, state))
    except Exception as ex:
        return 'raises %r' % (ex,)


def replay(w):
    from vf.checks.c15 import parse_canon
    sh = common.Shard()
    e = parse_canon(w['tree'])
    state = dict((parse_canon(k), parse_canon(v)) for k, v in w['state'])
    check_case(sh, e, state, ('replay',), 'replay', want_const=w.get('want_const', False), backing=w.get('backing', False))
    return [(v['key'], v['detail']) for v in sh.violations]
