"""C07 - symbolic machine state equals sequential execution, incl. overlapping memory.

Reference-model monitor: the same lifted semantics are executed by the symbolic machine
(eval_instr / emul_lines) and, instruction by instruction with parallel assignment, by the
independent concrete interpreter on a byte-addressed little-endian memory; every register and
every memory read-back is then evaluated under several valuations of the initial symbols and
compared.
"""
import itertools
from vf import common, irsem, exprgen, gnuref

PROPERTY = 'C07'
RULE = ('(a) IR-level store/load histories through eval_instr/eval_expr: stores of widths 8/16/32 at offsets 0..7 from a constant base, a symbolic base and a '
        'machine register base (init_esp), then a load of width 8/16/32 at offset 0..7: exhaustive for 1 store + 1 load (3 bases x 576), exhaustive for 2 stores '
        '+ 1 load in the thorough tier (a deterministic eighth in quick), seeded random for 3..8 stores with interleaved loads; stored values are fresh symbols, constants (2 stores + 1 load again with constant values) and contiguous slices of one identifier stored at adjacent addresses followed by a wide load and a second load; (b) ISA-level straight-line '
        'sequences of length 1..12 over mov/add/sub/xor/and/or/inc/dec/neg/not/lea/push/pop/xchg/xadd/shl/shr/movzx with register, immediate and memory '
        'operands whose addresses fall in an 8-byte window, assembled by GNU as, emulated with emul_lines on x86_machine(); (b2) accesses through a register reloaded from memory whose source cell is then overwritten, compared with the twin sequence through the initial register; values containing conditionals (cmovcc, setcc, sign extensions, lahf) cut and re-composed by narrower/wider accesses in registers and through memory; registers holding boundary constants x shifts / rotates / ALU / mul / bit operations (concrete evaluation paths); (c) rep movs/stos/lods and '
        'repe/repne cmps/scas with concrete ecx in {0,1,2,5} and both directions. After each history every register and every (offset 0..11, width 8/16/32) '
        'read-back is compared on 4 valuations. A case = the history; non-trivial = it contains a read overlapping an earlier write of another width or offset '
        '(a), or a memory access / a rep prefix (b, c).')
RULE += ' Round 6: sequences that cut one value into many windows: push/popf/setcc, pushf/pop, sahf, lahf on loaded flag images; bytes and words of one register or dword combined with each other.'
RULE += ' Round 7: one cell through differently built addresses: a pointer loaded from memory, adjusted, its slot overwritten, overlapping stores of two widths through it (48 sequences); one sum formed from two register pairs, by lea, by add, scaled, through zero/sign extensions.'
RULE += ' Round 8: stored values made of several parts (a register after a byte move into it, the flags image, a value loaded from partly written memory) whose low part is overwritten by a narrower store and read back whole.'
RULE += ' Round 10: the 1+1 histories (and a 2+2 family on the constant base) are repeated with the read-back expressions built once, evaluated on the untouched machine and evaluated again as the same objects after the stores (a watch list), and on a machine built with a func_read callback over the initial memory image.'
ASSUMPTIONS = ['irsem is the meaning of the IR; memory is flat (segment annotations do not take part in addresses)',
               'valuations keep distinct symbolic bases >= 1 MiB apart and away from constant addresses (no aliasing outside the statement)',
               'results under uninterpreted operators or architecturally undefined values are not compared']

WIDTHS = (8, 16, 32)
CONST_BASE = 0x1000
STEP_BUDGET = 300000      # rewrite steps of the simplifier allowed inside one library call (bounded progress)


class budget(object):
    """Logical progress bound on the simplifier while a library call runs (StepBound on overflow)."""

    def __enter__(self):
        from vf.checks import c05
        c05.install_monitor()
        c05._counter['n'] = 0
        c05._counter['limit'] = STEP_BUDGET

    def __exit__(self, *a):
        from vf.checks import c05
        c05._counter['limit'] = 0
        return False


def base_expr(kind):
    ex, mi = exprgen.M()
    if kind == 'const':
        return exprgen.Int(CONST_BASE, 32)
    if kind == 'sym':
        return ex.ExprId('B32', 32)
    from miasmx.arch import ia32_sem as S
    return S.esp


def addr(kind, off):
    ex, mi = exprgen.M()
    b = base_expr(kind)
    if kind == 'const':
        return exprgen.Int(CONST_BASE + off, 32)
    if off == 0:
        return b
    return ex.ExprOp('+', b, exprgen.Int(off, 32))


def new_machine(kind):
    from miasmx.tools import emul_helper
    from miasmx.expression.expression_eval_abstract import eval_abs
    if kind == 'reg':
        return emul_helper.x86_machine()
    return eval_abs({})


def make_envs(tag, n=4):
    envs = []
    for i in range(n):
        env = irsem.Env(seed=(tag, i))
        env.ids['B32'] = 0x20000000 + (env._h('b') & 0xffff0)
        env.ids['init_esp'] = 0x30000000 + (env._h('s') & 0xffff0)
        env.ids['esp'] = env.ids['init_esp']
        env.ids['init_esi'] = 0x40000000 + (env._h('i') & 0xffff0)
        env.ids['init_edi'] = 0x50000000 + (env._h('d') & 0xffff0)
        env.ids['init_ebp'] = 0x60000000 + (env._h('p') & 0xffff0)
        envs.append(env)
    return envs


def relation(ro, rw, wo, ww):
    """Interval relation of a read [ro, ro+rw) to a write [wo, wo+ww) in bytes."""
    r0, r1, w0, w1 = ro, ro + rw, wo, wo + ww
    if r1 <= w0 or w1 <= r0:
        return 'disjoint'
    if r0 == w0 and r1 == w1:
        return 'equal'
    if r0 >= w0 and r1 <= w1:
        if r0 == w0:
            return 'read-is-prefix'
        if r1 == w1:
            return 'read-is-suffix'
        return 'read-inside'
    if r0 <= w0 and r1 >= w1:
        if r0 == w0:
            return 'read-covers-write-aligned'
        return 'read-covers-write-inside'
    if r0 < w0:
        return 'read-straddles-start'
    return 'read-straddles-end'


READER = {'n': 0}


def run_ir_history(sh, kind, ops, tag, origin, variant=''):
    """ops: list of ('st', off, width) / ('ld', off, width). Every load is checked when it happens.
    variant 'watch': the read-back expressions are built once, evaluated on the untouched machine, and the same objects are
    evaluated again when their turn comes (a watch list); variant 'reader': the machine is built with a func_read callback over
    the initial memory image (one valuation, whose memory the callback serves)."""
    ex, mi = exprgen.M()
    envs = make_envs(tag)
    if variant == 'reader':
        envs = envs[:1]
        from miasmx.expression.expression_eval_abstract import eval_abs
        img = envs[0].copy()

        def reader(machine, a):
            READER['n'] += 1
            return exprgen.Int(img.load(int(a.arg.arg) & 0xffffffff, a.size // 8), a.size)
        m = eval_abs({}, func_read=reader)
    else:
        m = new_machine(kind)
    kkey = kind + ('+' + variant if variant else '')
    watch = {}
    if variant == 'watch':
        for idx, op in enumerate(ops):
            if op[0] == 'ld':
                watch[idx] = ex.ExprMem(addr(kind, op[1]), op[2])
                try:
                    m.eval_expr(watch[idx], {})
                except Exception:
                    pass
    concrete = [e.copy() for e in envs]       # concrete memories evolve with the stores
    stores = []
    canon = (kkey, tuple(ops))
    nontriv = False
    for idx, op in enumerate(ops):
        if op[0] == 'st':
            off, w = op[1], op[2]
            vk = op[3] if len(op) > 3 else 'sym'
            if vk == 'sym':
                v = ex.ExprId('v%d_%d' % (idx, w), w)
            elif vk == 'const':
                v = exprgen.Int((0x9c5a3311 * (idx + 1) + 0x77) & irsem.mask(w), w)
            else:       # ('slice', bit): a slice of one shared 32-bit identifier (what 'mov [p], al ; mov [p+1], ah' stores)
                v = ex.ExprSlice(ex.ExprId('R32', 32), vk[1], vk[1] + w)
            try:
                with common.alarm_guard(120), budget():
                    m.eval_instr([ex.ExprAff(ex.ExprMem(addr(kind, off), w), v)])
            except common.alarm_guard.Fired:
                sh.counters['watchdog_fired'] += 1
                return
            except Exception as e:
                sh.case(canon, True, cls='%s:%s' % (origin, kind))
                rels = [relation(so, sw // 8, off, w // 8) for so, sw in stores]
                over = [r for r in rels if r != 'disjoint']
                sh.violation('ir/%s/store-raises:%s/%s' % (kkey, type(e).__name__, over[-1] if over else 'disjoint'),
                             'store %d bits at +%d after %s raised %r' % (w, off, stores, e), {'part': 'a', 'kind': kind, 'variant': variant, 'ops': [list(o) for o in ops]})
                return
            for env, c in zip(envs, concrete):
                a = irsem.evaluate(addr(kind, off), env)
                c.store(a, w // 8, irsem.evaluate(v, env))
            stores.append((off, w))
        else:
            off, w = op[1], op[2]
            rels = [relation(off, w // 8, so, sw // 8) for so, sw in stores]
            over = [r for r in rels if r != 'disjoint']
            if any(r != 'equal' for r in over):
                nontriv = True
            wit = {'part': 'a', 'kind': kind, 'variant': variant, 'ops': [list(o) for o in (ops if variant == 'watch' else ops[:idx + 1])]}
            # mechanism class: relation of the read to the most recent write it overlaps
            relkey = over[-1] if over else 'disjoint'
            if relkey == 'read-covers-write-inside' and len(over) == 1:
                relkey = 'read-covers-one-write-inside'       # the known defect needs two inner cells; one inner cell is handled
            try:
                with common.alarm_guard(120), budget():
                    r = m.eval_expr(watch[idx] if idx in watch else ex.ExprMem(addr(kind, off), w), {})
            except common.alarm_guard.Fired:
                sh.counters['watchdog_fired'] += 1
                return
            except Exception as e:
                sh.case(canon, True, cls='%s:%s' % (origin, kind))
                sh.violation('ir/%s/%s/wrong-readback' % (kkey, relkey), '[raises:%s] load %d bits at +%d after stores %s raised %r' % (type(e).__name__, w, off, stores, e), wit)
                return
            bad = None
            try:
                if irsem.width(r) != w:
                    bad = ('width', 'read-back %s has %d bits' % (r, irsem.width(r)))
            except irsem.IllFormed as e:
                bad = ('ill-formed', 'read-back %s: %r' % (r, e))
            if bad is None:
                for env, c in zip(envs, concrete):
                    want = c.load(irsem.evaluate(addr(kind, off), env), w // 8)
                    try:
                        got = irsem.evaluate(r, env)
                    except irsem.IllFormed as e:
                        bad = ('ill-formed', 'read-back %s: %r' % (r, e))
                        break
                    except (irsem.Undefined, irsem.Uninterpreted):
                        continue
                    if got != want:
                        bad = ('value', 'read-back %s evaluates to 0x%x, byte-addressed memory holds 0x%x' % (r, got, want))
                        break
            if bad:
                sh.case(canon, True, cls='%s:%s' % (origin, kind))
                sh.violation('ir/%s/%s/wrong-readback' % (kkey, relkey), ('(%s variant) ' % variant if variant else '') + '[%s] after stores %s (offset, width) load of %d bits at +%d: %s' % (bad[0], stores, w, off, bad[1]), wit)
                return
    sh.case(canon, nontriv, cls='%s:%s' % (origin, kind))
    if len(sh.samples) < 3 and nontriv:
        sh.sample({'base': kind, 'history': [list(o) for o in ops]})


def all_accesses():
    return [(off, w) for w in WIDTHS for off in range(8)]


# ------------------------------------------------------------------ ISA level

REGS32 = ['%eax', '%ebx', '%ecx', '%edx']
REGS16 = ['%ax', '%bx', '%cx', '%dx']
REGS8 = ['%al', '%bl', '%cl', '%dl', '%ah', '%bh']


def gen_line(rng, alias=True):
    sfx, regs, imm = rng.choice((('l', REGS32, 0x12345678), ('w', REGS16, 0x1234), ('b', REGS8, 0x12)))
    mem = '%d(%%esi)' % rng.randint(0, 7)
    if not alias:
        # no partial overlap: memory is only accessed as aligned dwords at +0 / +4 / +8
        if rng.random() < 0.5:
            sfx, regs = 'l', REGS32
        mem = '%d(%%esi)' % rng.choice((0, 4, 8)) if sfx == 'l' else rng.choice(regs)
    r1, r2 = rng.choice(regs), rng.choice(regs)
    k = rng.random()
    if not alias and 0.79 <= k < 0.84:
        return rng.choice(('pushl %eax', 'pushl %ebx', 'popl %ecx', 'popl %edx', 'pushl $7'))
    if not alias and k >= 0.92 and k < 0.96:
        return 'movz%sl %s, %s' % ('b', rng.choice(REGS8), rng.choice(REGS32))
    if k < 0.22:
        return 'mov%s %s, %s' % (sfx, r1, mem)
    if k < 0.40:
        return 'mov%s %s, %s' % (sfx, mem, r1)
    if k < 0.48:
        return 'mov%s $%d, %s' % (sfx, rng.getrandbits(8 if sfx == 'b' else 15), mem)
    if k < 0.56:
        return '%s%s %s, %s' % (rng.choice(('add', 'sub', 'xor', 'and', 'or')), sfx, r1, mem)
    if k < 0.64:
        return '%s%s %s, %s' % (rng.choice(('add', 'sub', 'xor', 'and', 'or')), sfx, mem, r1)
    if k < 0.70:
        return '%s%s %s' % (rng.choice(('inc', 'dec', 'neg', 'not')), sfx, rng.choice((mem, r1)))
    if k < 0.75:
        return 'xchg%s %s, %s' % (sfx, r1, rng.choice((mem, r2)))
    if k < 0.79:
        return 'xadd%s %s, %s' % (sfx, r1, rng.choice((mem, r2)))
    if k < 0.84:
        return rng.choice(('pushl %eax', 'pushl %ebx', 'popl %ecx', 'popl %edx', 'pushl $7', 'pushl 4(%esi)', 'popl (%esi)'))
    if k < 0.88:
        return 'leal %d(%%esi,%s,2), %s' % (rng.randint(0, 9), rng.choice(REGS32), rng.choice(REGS32))
    if k < 0.92:
        return '%s%s $%d, %s' % (rng.choice(('shl', 'shr')), sfx, rng.randint(1, 7), rng.choice((mem, r1)))
    if k < 0.96:
        return 'movz%sl %s, %s' % ('b' if rng.random() < 0.5 else 'w', '%d(%%esi)' % rng.randint(0, 7), rng.choice(REGS32))
    return 'mov%s %s, %s' % (sfx, r1, r2)


def emulate_and_compare(sh, lines, blobs, tag, origin, rep=False):
    """Emulate the decoded blobs on x86_machine and on the concrete interpreter; compare state."""
    from miasmx.arch.ia32_arch import x86mnemo
    from miasmx.tools import emul_helper
    from miasmx.arch import ia32_sem as S
    ex, mi = exprgen.M()
    wit = {'part': 'b', 'lines': lines, 'bytes': [b.hex() for b in blobs]}
    canon = tuple(lines)
    cls = '%s:len%d' % (origin, len(lines))
    try:
        instrs = []
        off = 0
        for b in blobs:
            from miasmx.core.bin_stream import bin_stream
            bs = bin_stream(b'\x90' * off + b, off)
            ins = x86mnemo.dis(bs)
            if ins is None or ins.l != len(b):
                sh.counters['decode_mismatch(C01)'] += 1
                return
            instrs.append(ins)
            off += len(b)
    except Exception:
        sh.counters['decode_raises(C10)'] += 1
        return
    m = emul_helper.x86_machine()
    try:
        with common.alarm_guard(300), budget():
            emul_helper.emul_lines(m, instrs)
    except common.alarm_guard.Fired:
        sh.counters['watchdog_fired'] += 1
        return
    except common.StepBound as e:
        sh.case(canon, True, cls)
        sh.violation('isa/emulation-step-bound/%s' % mech_class(lines), 'emul_lines(%s): %s' % ('; '.join(lines), e), wit)
        return
    except Exception as e:
        if isinstance(e, ValueError) and 'ECX value is' in str(e):
            sh.counters['rep_with_symbolic_count(not applicable)'] += 1
            return
        sh.case(canon, True, cls)
        sh.violation('isa/emulation-raises:%s/%s' % (type(e).__name__, mech_class(lines)), 'emul_lines(%s) raised %r' % ('; '.join(lines), e), wit)
        return
    if rep and lines and lines[-1].split()[0] in ('repe', 'repne', 'repz', 'repnz'):
        zfv = m.pool.pool_id.get(S.zf)
        cnt0 = any(l.startswith('movl $0, %ecx') for l in lines)
        if not cnt0 and (zfv is None or zfv.__class__.__name__ != 'ExprInt'):
            sh.counters['repe/repne with symbolic zf (termination undecidable: not applicable)'] += 1
            return
    sh.case(canon, True, cls)
    envs = make_envs(tag, 3)
    for env in envs:
        # concrete sequential execution of the same lifted semantics
        c = env.copy()
        regmap = {}
        for r, init in S.init_regs.items():
            c.ids[r.name] = env.id_value(init.name, init.size)
        c.ids['cs'] = 9
        c.ids['dr7'] = 0
        c.ids['cr0'] = env.id_value('init_cr0', 32)
        ok = True
        try:
            off = 0
            for ins in instrs:
                nxt = exprgen.Int(ins.offset + ins.l, 32)
                affs = emul_helper.get_instr_expr(ins, nxt, [])
                n_iter = 1
                if rep and (0xf2 in ins.prefix or 0xf3 in ins.prefix) and ins.m.name[:-1] in ('movs', 'stos', 'lods', 'cmps', 'scas'):
                    n_iter = None
                if n_iter == 1:
                    c, _ = irsem.exec_assignments(affs, c)
                else:
                    guard = 0
                    while c.ids['ecx'] & 0xffffffff:
                        c, _ = irsem.exec_assignments(affs, c)
                        c.ids['ecx'] = (c.ids['ecx'] - 1) & 0xffffffff
                        guard += 1
                        if ins.m.name[:-1] in ('cmps', 'scas'):
                            if 0xf3 in ins.prefix and c.ids['zf'] == 0:
                                break
                            if 0xf2 in ins.prefix and c.ids['zf'] == 1:
                                break
                        if guard > 64:
                            break
                c.ids.pop('eip', None)
        except (irsem.Undefined, irsem.Uninterpreted):
            sh.counters['uncompared(uninterpreted or undefined)'] += 1
            continue
        except irsem.IllFormed:
            sh.counters['ill_typed_lift(C11)'] += 1
            return
        # registers
        for r in sorted(m.pool.pool_id, key=lambda x: x.name):
            if r.name in ('eip', 'tsc1', 'tsc2'):
                continue
            val = m.pool.pool_id[r]
            try:
                got = irsem.evaluate(val, env) & irsem.mask(r.size)
            except (irsem.Undefined, irsem.Uninterpreted):
                continue
            except irsem.IllFormed as e:
                sh.violation('isa/ill-formed-register-value/%s' % mech_class(lines), '%s = %s after %s: %r' % (r.name, val, '; '.join(lines), e), wit)
                return
            want = c.ids.get(r.name)
            if want is None:
                continue
            want &= irsem.mask(r.size)
            if got != want:
                rk = 'flag' if r.size == 1 else 'reg'
                sh.violation('isa/%s-value/%s' % (rk, mech_class(lines)), 'after %s: %s = %s evaluates to 0x%x, sequential execution gives 0x%x' % (
                    '; '.join(lines), r.name, str(val)[:200], got, want), wit)
                return
        # memory read-backs in the windows
        for basereg in ('esi', 'edi', 'esp'):
            if not any(('%' + basereg) in l or (basereg == 'esp' and ('push' in l or 'pop' in l)) or (rep and basereg in ('esi', 'edi')) for l in lines):
                continue
            binit = getattr(S, 'init_' + basereg)
            for o in range(-8 if basereg == 'esp' else 0, 12):
                for w in WIDTHS:
                    if origin == 'isa-noalias' and (w != 32 or o % 4):
                        continue
                    if rep:
                        ew = {'b': 8, 'w': 16, 'l': 32, 'd': 32}.get(lines[-1].split()[-1][-1], 8)
                        if w != ew or o % (ew // 8):
                            continue
                    a = ex.ExprOp('+', binit, exprgen.Int(o & 0xffffffff, 32)) if o else binit
                    try:
                        with budget():
                            rb = m.eval_expr(ex.ExprMem(a, w), {})
                    except Exception as e:
                        sh.violation('isa/readback-raises:%s/%s' % (type(e).__name__, mech_class(lines)), 'read-back @%d[init_%s%+d] after %s raised %r' % (w, basereg, o, '; '.join(lines), e), wit)
                        return
                    try:
                        got = irsem.evaluate(rb, env)
                    except (irsem.Undefined, irsem.Uninterpreted):
                        continue
                    except irsem.IllFormed as e:
                        sh.violation('isa/ill-formed-readback/%s' % mech_class(lines), 'read-back @%d[init_%s%+d] = %s after %s: %r' % (w, basereg, o, rb, '; '.join(lines), e),
                                     dict(wit, readback=[basereg, o, w]))
                        return
                    want = c.load((env.id_value(binit.name, 32) + o) & 0xffffffff, w // 8)
                    if got != want:
                        sh.violation('isa/memory-value/%s' % mech_class(lines), 'after %s: @%d[init_%s%+d] = %s evaluates to 0x%x, sequential execution gives 0x%x' % (
                            '; '.join(lines), w, basereg, o, str(rb)[:200], got, want), dict(wit, readback=[basereg, o, w]))
                        return
    if len(sh.samples) < 3:
        sh.sample({'lines': lines})


KNOWN_BAD_RELATIONS = ('read-inside', 'read-is-suffix', 'read-straddles-end', 'read-straddles-start', 'read-covers-write-inside')


def esi_accesses(lines):
    """(offset, nbytes) of every d(%esi) operand of a generated AT&T line, in program order."""
    import re
    out = []
    for l in lines:
        mn = l.split()[0]
        for m in re.finditer(r'(-?\d*)\(%esi\)', l):
            if mn.startswith('lea'):
                continue
            w = {'b': 1, 'w': 2, 'l': 4}.get(mn[-1], 4)
            if mn.startswith('movz'):
                w = {'b': 1, 'w': 2}[mn[4]]
            out.append((int(m.group(1) or 0), w))
    return out


def esp_accesses(lines):
    """(offset from init_esp, nbytes) of the stack accesses of push/pop lines, in program order."""
    out = []
    off = 0
    for l in lines:
        mn = l.split()[0]
        if mn.startswith('push'):
            off -= 4
            out.append((off, 4))
        elif mn.startswith('pop'):
            out.append((off, 4))
            off += 4
    return out


def has_known_bad_overlap(lines, readback=None):
    """Does the sequence (plus the failing read-back) contain an access that stands in one of the relations to an earlier
    access for which the IR-level histories of part (a) already show wrong read-backs on the unchanged tree?"""
    for base, acc in (('esi', esi_accesses(lines)), ('esp', esp_accesses(lines))):
        later = list(enumerate(acc))
        if readback is not None and readback[0] == base:
            later.append((len(acc), (readback[1], readback[2] // 8)))
        for i, (o, n) in later:
            for (po, pn) in acc[:i]:
                if relation(o, n, po, pn) in KNOWN_BAD_RELATIONS:
                    return True
    return False


def re_suffix(mn):
    import re
    return re.sub(r'^(rol|ror|rcl|rcr|shl|shr|sar|add|sub|adc|sbb|xor|and|or|cmp|test|neg|not|inc|dec|mul|imul|bt|bsf|bsr|shld|shrd|xchg|lea)[bwl]$', r'\1', mn)


def mech_class(lines):
    """Coarse mechanism class of an instruction sequence: which features it contains."""
    f = set()
    ws = set()
    for l in lines:
        mn = l.split()[0]
        if mn in ('rep', 'repe', 'repne', 'repz', 'repnz'):
            f.add('rep:' + l.split()[1][:4])
            continue
        if '(%esi)' in l or '(%edi)' in l or '(%esi,' in l:
            f.add('mem')
            ws.add(mn[-1] if mn[-1] in 'bwl' else '?')
        if mn.startswith('push') or mn.startswith('pop'):
            f.add('stack')
        if mn[:4] in ('xchg', 'xadd'):
            f.add('xchg')
    if len(ws) > 1:
        f.add('mixed-widths')
    return '+'.join(sorted(f)) or 'regs-only'


def minimise(sh, lines, tag, origin, rep, kind):
    """Smallest sub-sequence (delta debugging by single deletions) that still fails the same way; returns lines."""
    def fails(ls):
        t = common.Shard()
        asm = gnuref.gas(ls, 'att')
        if any(a[0] is None for a in asm):
            return None
        emulate_and_compare(t, ls, [a[0] for a in asm], tag, origin, rep)
        return t.violations[0] if (t.violations and t.violations[0]['key'].split('/')[1] == kind) else None
    cur = list(lines)
    changed = True
    while changed and len(cur) > 1:
        changed = False
        for i in range(len(cur)):
            cand = cur[:i] + cur[i + 1:]
            if fails(cand):
                cur = cand
                changed = True
                break
    return cur


def ptr_case(sh, lines, twin, tag):
    """Sequence through a reloaded pointer vs its twin through the initial register: a failure of the sequence that its twin
    does not share is not the known overlap mechanism."""
    asm = gnuref.gas(lines, 'att')
    asm2 = gnuref.gas(twin, 'att')
    if any(a[0] is None for a in asm) or any(a[0] is None for a in asm2):
        sh.counters['gas_rejects'] += 1
        return
    t = common.Shard()
    emulate_and_compare(t, lines, [a[0] for a in asm], tag, 'isa-ptr')
    sh.evaluations += t.evaluations
    sh.nontrivial |= t.nontrivial
    sh.classes |= t.classes
    sh.counters.update(t.counters)
    if not t.violations:
        return
    t2 = common.Shard()
    emulate_and_compare(t2, twin, [a[0] for a in asm2], tag, 'isa-ptr')
    v = t.violations[0]
    kind = v['key'].split('/')[1]
    if t2.violations:
        key = 'isa-alias/state-differs-after-partially-overlapping-accesses'
    else:
        key = 'isa-ptr/%s/%s' % (kind, 'stack' if 'ebp' in lines[0] else 'reloaded-pointer')
    sh.violation(key, v['detail'] + ' [the same accesses through the initial register %s]' % ('fail too' if t2.violations else 'are handled correctly'), {'part': 'b', 'lines': lines, 'rep': False})


def isa_case(sh, lines, tag, origin, rep=False):
    asm = gnuref.gas(lines, 'att')
    if any(a[0] is None for a in asm):
        sh.counters['gas_rejects'] += 1
        return
    t = common.Shard()
    emulate_and_compare(t, lines, [a[0] for a in asm], tag, origin, rep)
    sh.evaluations += t.evaluations
    sh.nontrivial |= t.nontrivial
    sh.classes |= t.classes
    sh.counters.update(t.counters)
    for s in t.samples:
        sh.sample(s)
    if t.violations:
        small = minimise(sh, lines, tag, origin, rep, t.violations[0]['key'].split('/')[1])
        t2 = common.Shard()
        asm2 = gnuref.gas(small, 'att')
        emulate_and_compare(t2, small, [a[0] for a in asm2], tag, origin, rep)
        v = (t2.violations or t.violations)[0]
        kind = v['key'].split('/')[1]
        if origin == 'isa-alias' and has_known_bad_overlap(small, (v.get('witness') or {}).get('readback')):
            # partially overlapping accesses: one mechanism (the overlap logic of eval_ExprMem/eval_instr); the
            # mechanisms themselves are keyed precisely by the IR-level histories of part (a). Only sequences that
            # contain one of the access relations known to be mishandled are attributed to it.
            key = 'isa-alias/state-differs-after-partially-overlapping-accesses'
        elif origin in ('isa-cond', 'isa-addr') and has_known_bad_overlap(small, (v.get('witness') or {}).get('readback')):
            key = 'isa-alias/state-differs-after-partially-overlapping-accesses'
        elif origin == 'isa-cond':
            key = '%s/%s/%s' % (origin, kind, '+'.join(sorted(set(re_suffix(l.split()[0]).rstrip('elsbagn') if l.split()[0].startswith(('cmov', 'set')) else re_suffix(l.split()[0]) for l in small))))
        elif origin == 'isa-const':
            key = '%s/%s/%s' % (origin, kind, re_suffix(lines[-1].split()[0]))
        else:
            key = '%s/%s/%s' % (origin, kind, mech_class(small))
        sh.violation(key, v['detail'] + ' [minimised from %d to %d instructions: %s]' % (len(lines), len(small), '; '.join(small)), {'part': 'b', 'lines': small, 'rep': rep})


def ptr_cases():
    """(sequence, twin) pairs: the sequence accesses memory through a register that was itself loaded from memory, whose source
    cell is then overwritten; the twin does the same accesses through the initial register without the reload."""
    out = []
    sfx = {8: ('b', '%al', '%dl'), 16: ('w', '%ax', '%dx'), 32: ('l', '%eax', '%edx')}
    for o1 in (0, 2):
        for w1 in (8, 16, 32):
            for over in ('full', 'partial', 'none'):
                for o2 in (0, 1, 2, 4):
                    for w2 in (8, 16, 32):
                        st = 'mov%s %s, %d(%%esi)' % (sfx[w1][0], sfx[w1][1], o1)
                        ld = 'mov%s %d(%%esi), %s' % (sfx[w2][0], o2, sfx[w2][2])
                        ov = {'full': ['movl %ecx, (%ebx)'], 'partial': ['movb %cl, 1(%ebx)'], 'none': []}[over]
                        out.append((['movl (%ebx), %esi', st] + ov + [ld], [st, ld]))
    return out


def addr_cases():
    """The same memory cell reached through addresses that are built differently: a pointer loaded from memory, adjusted, its
    slot then overwritten, and overlapping stores of different widths through it; one sum formed from two register pairs whose
    names sort in opposite orders; lea / add / scaled forms of one sum. Accesses never partially overlap in a way the
    IR-level part already records as mishandled: full-width store, narrower store inside it, full-width or contained load."""
    out = []
    for adj in (['leal 8(%ebx), %ebx'], ['addl $8, %ebx'], ['incl %ebx'], []):
        for over in (['movl %ecx, (%esi)'], ['movb %cl, 1(%esi)'], []):
            for st2, ld in (('movb %dl, 5(%ebx)', 'movl 4(%ebx), %edi'), ('movw %dx, 6(%ebx)', 'movl 4(%ebx), %edi'), ('movb %dl, 4(%ebx)', 'movzbl 4(%ebx), %edi'),
                            ('movl %edx, 4(%ebx)', 'movl 4(%ebx), %edi')):
                out.append(['movl (%esi), %ebx'] + adj + over + ['movl %eax, 4(%ebx)', st2, ld])
    out.append(['movl (%esi), %ebx', 'movl %ecx, (%esi)', 'movl %eax, 4(%ebx,%edi)', 'movb %dl, 5(%ebx,%edi)', 'movl 4(%ebx,%edi), %ebp'])
    out.append(['movl 8(%esi), %ebx', 'movl (%ebx), %ebx', 'movl %ecx, 8(%esi)', 'movl %eax, (%ebx)', 'movb %dl, 1(%ebx)', 'movl (%ebx), %edi'])
    # one address, two routes
    for lo, hi in (('%al', '%ah'), ('%cl', '%ch'), ('%bl', '%bh')):
        free = [r for r in ('%esi', '%edi', '%ebx', '%edx', '%eax', '%ebp') if r[2] != lo[1]]
        p1, p2, q1, q2 = free[0], free[1], free[2], free[3]
        mk = ['movzbl %s, %s' % (lo, p1), 'movzbl %s, %s' % (hi, p2)]
        mk2 = ['movzbl %s, %s' % (lo, q1), 'movzbl %s, %s' % (hi, q2)]
        out.append(mk + ['movl %%ecx, (%s,%s)' % (p1, p2)] + mk2 + ['movl (%s,%s), %%ebp' % (q1, q2)])
        out.append(mk + ['movl %%ecx, (%s,%s)' % (p1, p2)] + mk2 + ['movl (%s,%s), %%ebp' % (q2, q1)])
        out.append(mk + ['movl %%ecx, (%s,%s)' % (p1, p2)] + mk2 + ['movb $7, 1(%s,%s)' % (q1, q2), 'movl (%s,%s), %%ebp' % (p1, p2)])
        out.append(mk + ['movw %%cx, 2(%s,%s)' % (p2, p1)] + mk2 + ['movw 2(%s,%s), %%bp' % (q1, q2)])
    out.append(['leal (%eax,%ecx), %esi', 'movl %edx, (%esi)', 'movl (%eax,%ecx), %edi'])
    out.append(['leal (%eax,%ecx), %esi', 'movl %edx, (%esi)', 'movl (%ecx,%eax), %edi'])
    out.append(['movl %eax, %esi', 'addl %ecx, %esi', 'movl %edx, 4(%esi)', 'movb %bl, 5(%eax,%ecx)', 'movl 4(%ecx,%eax), %edi'])
    out.append(['leal (,%eax,2), %esi', 'movl %edx, (%esi)', 'movl (%eax,%eax), %edi'])
    out.append(['leal 4(%eax), %esi', 'movl %edx, 4(%esi)', 'movl 8(%eax), %edi'])
    out.append(['movl %eax, %esi', 'subl $-8, %esi', 'movl %edx, (%esi)', 'movw %bx, 10(%eax)', 'movl 8(%eax), %edi'])
    out.append(['movzwl %ax, %esi', 'movzwl %ax, %edi', 'movl %edx, (%esi)', 'movl (%edi), %ebp'])
    out.append(['movswl %ax, %esi', 'movswl %ax, %edi', 'movl %edx, 4(%esi)', 'movb %cl, 5(%edi)', 'movl 4(%esi), %ebp'])
    return out


def const_cases():
    """Registers holding constants (concrete evaluation paths of the evaluator): boundary constants x shifts/rotates/ALU."""
    out = []
    for K in (0x80000001, 0x12345678, 0xffffffff, 0x00000001, 0x7fffffff):
        for sfx, reg in (('l', '%eax'), ('w', '%ax'), ('b', '%al'), ('b', '%ah')):
            for op in ('rol', 'ror', 'rcl', 'rcr', 'shl', 'shr', 'sar'):
                for c in (1, 4, 7, 8, 15, 31):
                    out.append(['movl $%d, %%eax' % K, 'clc' if c % 2 else 'stc', '%s%s $%d, %s' % (op, sfx, c, reg)])
                out.append(['movl $%d, %%eax' % K, 'movb $%d, %%cl' % (K & 0x1f), 'clc', '%s%s %%cl, %s' % (op, sfx, reg)])
            for op in ('add', 'sub', 'adc', 'sbb', 'xor', 'and', 'or', 'cmp', 'test'):
                out.append(['movl $%d, %%eax' % K, 'movl $%d, %%ebx' % (K ^ 0x5a5a5a5a), 'stc', '%s%s %s, %s' % (op, sfx, {'l': '%ebx', 'w': '%bx', 'b': '%bl'}[sfx], reg)])
            for op in ('neg', 'not', 'inc', 'dec'):
                out.append(['movl $%d, %%eax' % K, '%s%s %s' % (op, sfx, reg)])
        for op in ('mull %ebx', 'imull %ebx', 'imull %ebx, %eax', 'imull $-3, %eax, %edx', 'bswap %eax', 'cltd', 'cwtl', 'movzbl %al, %edx', 'movsbl %ah, %edx', 'movswl %ax, %edx',
                   'leal 4(%eax,%eax,4), %edx', 'xchgb %al, %ah', 'btl $31, %eax', 'bsfl %eax, %edx', 'bsrl %eax, %edx', 'shldl $4, %ebx, %eax', 'shrdl $4, %ebx, %eax'):
            out.append(['movl $%d, %%eax' % K, 'movl $%d, %%ebx' % (K ^ 0x5a5a5a5a), op])
    return out


def cond_cases():
    """Values that contain conditionals (cmovcc results, setcc bytes, sign extensions) and are then cut and re-composed by
    narrower or wider accesses, in registers and through memory; sub-register flag writes into registers holding constants."""
    out = []
    for cc in ('e', 'ne', 's', 'ns', 'l', 'ge', 'b', 'a'):
        cmp_ = 'cmpl %ebx, %eax'
        out.append([cmp_, 'cmov%s %%ecx, %%edx' % cc, 'movzbl %dl, %esi'])
        out.append([cmp_, 'cmov%s %%ecx, %%edx' % cc, 'movzbl %dh, %esi'])
        out.append([cmp_, 'cmov%s %%ecx, %%edx' % cc, 'movw %dx, %di'])
        out.append([cmp_, 'cmov%s %%ecx, %%edx' % cc, 'movb %dl, %al', 'movb %dh, %ah'])
        out.append([cmp_, 'cmov%s %%ecx, %%edx' % cc, 'movl %edx, 4(%esi)', 'movb %al, 5(%esi)', 'movb %dh, 5(%esi)', 'movl 4(%esi), %edi'])
        out.append([cmp_, 'cmov%s %%ecx, %%edx' % cc, 'movl %edx, (%esi)', 'movzwl (%esi), %edi', 'movzbl 3(%esi), %ebp'])
        out.append([cmp_, 'cmov%sw %%cx, %%dx' % cc, 'movl %edx, %edi'])
        out.append(['movl $0x12345678, %edx', cmp_, 'set%s %%dh' % cc])
        out.append(['movl $0x12345678, %edx', cmp_, 'set%s %%dl' % cc, 'movzwl %dx, %edi'])
        out.append(['movl $0x12345678, %edx', cmp_, 'set%s %%dh' % cc, 'movl %edx, (%esi)', 'movzbl 1(%esi), %edi'])
        out.append([cmp_, 'set%s %%cl' % cc, 'movzbl %cl, %ecx', 'leal 4(%ecx,%ecx,2), %edx'])
        out.append([cmp_, 'set%s 2(%%esi)' % cc, 'movl (%esi), %edx'])
    # a constant shifted / rotated by a symbolic count (the 1 << n idiom), then narrowed, tested, or stored and partly overwritten
    for K in (1, 0x80000001, 0x00ff00ff):
        for op in ('shll', 'shrl', 'sarl', 'roll', 'rorl'):
            pre = ['movl $%d, %%eax' % K, '%s %%cl, %%eax' % op]
            out.append(pre + ['movzbl %al, %edx'])
            out.append(pre + ['movb %ah, %dl'])
            out.append(pre + ['testb %al, %al', 'sete %dl'])
            out.append(pre + ['movl %eax, (%esi)', 'movb %bl, 1(%esi)', 'movl (%esi), %edx'])
            out.append(pre + ['movw %ax, %dx', 'addl %eax, %edx'])
    out.append(['movsbl %al, %edx', 'movb %dh, %cl'])
    out.append(['movsbl %al, %edx', 'movzbl %dh, %ecx', 'movw %dx, 2(%esi)', 'movl (%esi), %edi'])
    out.append(['movswl %ax, %edx', 'movl %edx, (%esi)', 'movb 3(%esi), %cl'])
    out.append(['movl $0x12345678, %eax', 'cmpl %ebx, %ecx', 'lahf'])
    out.append(['movl $0x12345678, %eax', 'cmpl %ebx, %ecx', 'lahf', 'movzwl %ax, %edx'])
    out.append(['cmpl %ebx, %ecx', 'lahf', 'movb %ah, (%esi)', 'movzbl (%esi), %edx'])
    out.append(['cltd', 'movb %dh, %cl'])
    out.append(['sarl $31, %edx', 'movzbl %dh, %ecx'])
    # one value cut into many one-bit and one-byte windows: the flags register image, and bytes of one register combined
    out.append(['pushl %ebx', 'popfl'])
    out.append(['pushl %ebx', 'popfl', 'setc %al', 'sets %ah', 'seto %dl', 'setp %dh'])
    out.append(['pushl %ebx', 'popfl', 'pushfl', 'popl %edx'])
    out.append(['movl $0x8d5, %ebx', 'pushl %ebx', 'popfl', 'lahf'])
    out.append(['pushl (%esi)', 'popfl', 'adcl %eax, %edx'])
    out.append(['pushfl', 'popl %eax', 'movzbl %ah, %edx'])
    out.append(['movb %bh, %ah', 'sahf', 'setc %dl', 'setz %dh'])
    out.append(['pushw %bx', 'popfw', 'setc %al'])
    out.append(['movl %eax, %edx', 'shrl $16, %edx', 'xorb %al, %dl'])
    out.append(['movl %eax, %edx', 'shrl $16, %edx', 'xorb %ah, %dl', 'subb %dh, %al'])
    out.append(['movl %eax, (%esi)', 'movb 2(%esi), %dl', 'xorb (%esi), %dl'])
    out.append(['movl %eax, (%esi)', 'movb 3(%esi), %dl', 'cmpb 1(%esi), %dl', 'sete %cl'])
    out.append(['movl %eax, (%esi)', 'movw 2(%esi), %dx', 'xorw (%esi), %dx'])
    out.append(['movb %al, %dl', 'xorb %ah, %dl', 'bswap %eax', 'xorb %al, %dl', 'xorb %ah, %dl'])
    # a stored value made of several parts (a register after a byte move into it, the flags image, a value loaded from partly
    # written memory) whose low part is then overwritten by a narrower store, read back whole: the remainder spans several parts
    for narrow in ('movb %cl, (%esi)', 'movw %cx, (%esi)'):
        out.append(['movb %bl, %ah', 'movl %eax, (%esi)', narrow, 'movl (%esi), %edx'])
        out.append(['movb %bl, %ah', 'movb %dl, %al', 'movl %eax, (%esi)', narrow, 'movl (%esi), %edx', 'movzwl (%esi), %edi'])
        out.append(['movw %bx, %ax', 'movl %eax, (%esi)', narrow, 'movl (%esi), %edx'])
        out.append(['movl %ebx, (%edi)', 'movb %cl, (%edi)', 'movl (%edi), %eax', 'movl %eax, (%esi)', narrow.replace('%c', '%d'), 'movl (%esi), %ebp'])
        out.append(['sete %al', 'movb %bl, %ah', 'movl %eax, (%esi)', narrow, 'movl (%esi), %edx'])
    out.append(['pushfl', 'movb %cl, (%esp)', 'popl %eax'])
    out.append(['pushfl', 'movw %cx, (%esp)', 'popl %eax'])
    out.append(['pushl %ebx', 'popfl', 'pushfl', 'movb %cl, (%esp)', 'popl %eax'])
    out.append(['movb %bl, %ah', 'pushl %eax', 'movb %cl, (%esp)', 'popl %edx'])
    return out


REP_CASES = []
for _cnt in (0, 1, 2, 5):
    for _dir in ('cld', 'std'):
        for _ins in ('rep movsb', 'rep movsl', 'rep movsw', 'rep stosb', 'rep stosl', 'rep lodsb', 'rep lodsl'):
            REP_CASES.append(['movl $%d, %%ecx' % _cnt, _dir, _ins])
        for _ins in ('repe cmpsb', 'repne cmpsb', 'repe scasb', 'repne scasb'):
            # concrete byte data (written with byte stores: no partial overlap) so that the termination test is decidable
            _o = 0 if _dir == 'cld' else 0
            _setup = []
            for _k, (_a, _b) in enumerate(((1, 1), (1, 1), (1, 2), (1, 1), (3, 1))):
                _off = _k if _dir == 'cld' else -_k
                _setup += ['movb $%d, %d(%%esi)' % (_a, _off), 'movb $%d, %d(%%edi)' % (_b, _off)]
            REP_CASES.append(_setup + ['movl $0x01, %eax', 'movl $%d, %%ecx' % _cnt, _dir, _ins])


def shards(tier, seed):
    out = []
    for kind in ('const', 'sym', 'reg'):
        out.append(('ir11', kind))
        n2 = 8 if tier == 'quick' else 8
        for part in range(n2):
            out.append(('ir21', kind, part, n2, tier))
        for i in range(2 if tier == 'quick' else 24):
            out.append(('irrand', kind, i))
        out.append(('irvalues', kind))
    for i in range(24 if tier == 'quick' else 400):
        out.append(('isa', i))
        out.append(('isa-noalias', i))
    for i in range(0, len(REP_CASES), 8):
        out.append(('rep', i))
    for i in range(0, len(ptr_cases()), 16):
        out.append(('ptr', i))
    for i in range(0, len(const_cases()), 24):
        out.append(('constregs', i))
    for i in range(0, len(cond_cases()), 12):
        out.append(('condvals', i))
    for i in range(0, len(addr_cases()), 8):
        out.append(('addrs', i))
    return out


def run_shard(shard, tier, seed):
    sh = common.Shard()
    kind = shard[0]
    acc = all_accesses()
    if kind == 'ir11':
        for (so, sw) in acc:
            for (lo, lw) in acc:
                run_ir_history(sh, shard[1], [('st', so, sw), ('ld', lo, lw)], ('ir11', so, sw, lo, lw), 'ir1+1')
                run_ir_history(sh, shard[1], [('st', so, sw), ('ld', lo, lw)], ('ir11w', so, sw, lo, lw), 'ir1+1', variant='watch')
                if shard[1] == 'const':
                    run_ir_history(sh, shard[1], [('st', so, sw), ('ld', lo, lw)], ('ir11r', so, sw, lo, lw), 'ir1+1', variant='reader')
        if shard[1] == 'const':
            # two narrow stores inside a wider read, through the reader-backed machine, and the same on a watch list
            for (s1o, s1w) in acc[::3]:
                for (s2o, s2w) in acc[1::4]:
                    for (lo, lw) in ((0, 32), (1, 32), (0, 16), (4, 32), (2, 16), (3, 8)):
                        run_ir_history(sh, 'const', [('st', s1o, s1w), ('st', s2o, s2w), ('ld', lo, lw), ('ld', lo, 16 if lw != 16 else 8)], ('ir22r', s1o, s1w, s2o, s2w, lo, lw), 'ir2+2', variant='reader')
                        run_ir_history(sh, 'const', [('st', s1o, s1w), ('st', s2o, s2w), ('ld', lo, lw), ('ld', lo, 16 if lw != 16 else 8)], ('ir22w', s1o, s1w, s2o, s2w, lo, lw), 'ir2+2', variant='watch')
        sh.counters['reader_callbacks_observed'] += READER['n']
        sh.extra['exhaustive'] = ['1 store + 1 load, base %s (576 histories)' % shard[1]]
    elif kind == 'ir21':
        _, bk, part, nparts, tr = shard
        k = 0
        for (s1o, s1w) in acc:
            for (s2o, s2w) in acc:
                k += 1
                if k % nparts != part:
                    continue
                if tier == 'quick' and (k // nparts) % 8 != 0:
                    continue
                for (lo, lw) in acc:
                    run_ir_history(sh, bk, [('st', s1o, s1w), ('st', s2o, s2w), ('ld', lo, lw)], ('ir21', k, lo, lw), 'ir2+1')
        if tier == 'thorough':
            sh.extra['exhaustive'] = ['2 stores + 1 load, base %s, part %d/%d' % (bk, part, nparts)]
    elif kind == 'irvalues':
        bk = shard[1]
        # (i) constant stored values: 2 stores + 1 load (a deterministic part in quick, everything in thorough)
        k = 0
        for (s1o, s1w) in acc:
            for (s2o, s2w) in acc:
                k += 1
                if tier == 'quick' and k % 16 != 3:
                    continue
                for (lo, lw) in acc:
                    run_ir_history(sh, bk, [('st', s1o, s1w, 'const'), ('st', s2o, s2w, 'const' if k % 2 else 'sym'), ('ld', lo, lw)], ('irc', k, lo, lw), 'ir2+1const')
        # (ii) adjacent stores of contiguous slices of one identifier, a wide load over them, then a second load: the first
        # load must not disturb the state
        for (wa, wb) in ((8, 8), (8, 16), (16, 16), (16, 8)):
            for o1 in (0, 1, 2):
                for swap in (False, True):
                    o2 = o1 + wa // 8
                    sts = [('st', o1, wa, ('slice', 0)), ('st', o2, wb, ('slice', wa))]
                    if swap:
                        sts.reverse()
                    for wide in (16, 32):
                        for (lo, lw) in acc:
                            if lo > o2 + 3:
                                continue
                            run_ir_history(sh, bk, sts + [('ld', o1, wide), ('ld', lo, lw)], ('irs', wa, wb, o1, swap, wide, lo, lw), 'ir2+2slices')
    elif kind == 'irrand':
        rng = common.rng_for(seed, 'C07ir', shard[1], shard[2])
        for i in range(60):
            ops = []
            for _ in range(rng.randint(3, 8)):
                ops.append(('st',) + rng.choice(acc) + (rng.choice(('sym', 'sym', 'const')),))
                if rng.random() < 0.4:
                    ops.append(('ld',) + rng.choice(acc))
            ops.append(('ld',) + rng.choice(acc))
            run_ir_history(sh, shard[1], ops, ('irr', seed, shard[2], i), 'irrand')
    elif kind in ('isa', 'isa-noalias'):
        rng = common.rng_for(seed, 'C07' + kind, shard[1])
        for i in range(12 if tier == 'quick' else 20):
            n = rng.randint(1, 12)
            lines = [gen_line(rng, alias=(kind == 'isa')) for _ in range(n)]
            isa_case(sh, lines, (kind, seed, shard[1], i), 'isa-alias' if kind == 'isa' else 'isa-noalias')
    elif kind == 'ptr':
        for j, (lines, twin) in enumerate(ptr_cases()[shard[1]:shard[1] + 16]):
            ptr_case(sh, lines, twin, ('ptr', shard[1] + j))
    elif kind == 'condvals':
        for j, lines in enumerate(cond_cases()[shard[1]:shard[1] + 12]):
            isa_case(sh, lines, ('cond', shard[1] + j), 'isa-cond')
    elif kind == 'addrs':
        for j, lines in enumerate(addr_cases()[shard[1]:shard[1] + 8]):
            isa_case(sh, lines, ('addr', shard[1] + j), 'isa-addr')
    elif kind == 'constregs':
        for j, lines in enumerate(const_cases()[shard[1]:shard[1] + 24]):
            isa_case(sh, lines, ('const', shard[1] + j), 'isa-const')
    elif kind == 'rep':
        for j, lines in enumerate(REP_CASES[shard[1]:shard[1] + 8]):
            isa_case(sh, lines, ('rep', shard[1] + j), 'rep', rep=True)
    return sh


def finalize(merged, tier, seed):
    out = {'coverage': {'exhaustive': False, 'exhaustive_subspaces': sorted(merged.extra.get('exhaustive', []))}}
    if merged.counters.get('watchdog_fired', 0):
        out['inconclusive'] = ['%d emulations hit the 60 s wall watchdog' % merged.counters['watchdog_fired']]
    return out


def replay(w):
    sh = common.Shard()
    if w.get('part') == 'a':
        run_ir_history(sh, w['kind'], [tuple(o) for o in w['ops']], ('replay',), 'replay', variant=w.get('variant', ''))
    else:
        isa_case(sh, w['lines'], ('replay',), 'replay', rep=w.get('rep', False))
    return [(v['key'], v['detail']) for v in sh.violations]
