"""C15 - IR nodes obey structural laws: equality, hashing, copy, visit, substitution, canonize.

Monitors: an independent structural serialiser/substituter (exprgen.canon / ref_subst below)
and the independent interpreter (irsem) evaluated next to the real methods on every
generated tree.
"""
from vf import common, irsem, exprgen

PROPERTY = 'C15'
RULE = ('random well-typed trees over Int/Id/Mem(with and without segment)/Op/Cond/Slice/Compose/Aff, depth<=4, widths '
        '1/8/16/32/64; per tree: independently built equal twin (eq+hash), every single-field mutation of every node '
        '(must compare unequal), reflexivity/symmetry/transitivity on (e, twin, copy), copy() equality and node-identity '
        'disjointness, visit(identity), replace_expr for every distinct sub-term (structural reference substitution and '
        'value under the substituted valuation), canonize() value. A case = (law, canonical tree, sub-term index); '
        'non-trivial = the law was actually evaluated on a tree with at least two nodes.')
RULE += ' Round 6: constants with the top bit set are twinned with the same bit pattern held as a signed constant (equal constants must hash equally); slices are twinned with windows whose bounds have the same xor / the same sum.'
RULE += ' Round 7: 64-bit constants twinned with the constant of the same Python hash; an assignment whose destination identifier is replaced by a slice of a 16-, 32- or 64-bit location must assign exactly those bits.'
RULE += " Round 9: replacement maps whose values are themselves keys (exchange, chain, rotation over the tree's own leaves) against simultaneous substitution."
RULE += ' Round 10: the equality / hash laws on nodes the library itself built or edited: every node of expr_simp(e), e.copy(), e.canonize(), expr_simp(expr_simp(e)) and of a substituted tree against an independently built node of the same structure (rule templates of C05, slice/compose templates, random trees).'
ASSUMPTIONS = ['irsem is the meaning of the IR (self-test run by setup)', 'segment annotations do not take part in the value (flat memory)']


def all_nodes_ids(e, acc=None):
    """ids of all Expr node objects reachable from e (including segment expressions)."""
    if acc is None:
        acc = {}
    acc[id(e)] = e
    k = e.__class__.__name__
    if k == 'ExprMem':
        all_nodes_ids(e.arg, acc)
        if hasattr(e.segm, 'visit'):
            all_nodes_ids(e.segm, acc)
    elif k == 'ExprSlice':
        all_nodes_ids(e.arg, acc)
    elif k == 'ExprCompose':
        for a in e.args:
            all_nodes_ids(a[0], acc)
    elif k == 'ExprCond':
        all_nodes_ids(e.cond, acc); all_nodes_ids(e.src1, acc); all_nodes_ids(e.src2, acc)
    elif k == 'ExprOp':
        for a in e.args:
            all_nodes_ids(a, acc)
    elif k == 'ExprAff':
        all_nodes_ids(e.dst, acc); all_nodes_ids(e.src, acc)
    return acc


def ref_subst(e, dct):
    """Reference substitution, bottom-up: children first, then the rebuilt node is looked up.
    dct maps canonical strings to replacement expressions. Segments are descended into."""
    ex, mi = exprgen.M()
    k = e.__class__.__name__
    if k in ('ExprInt', 'ExprId'):
        n = e
    elif k == 'ExprMem':
        segm = e.segm
        if hasattr(segm, 'visit'):
            segm = ref_subst(segm, dct)
        n = ex.ExprMem(ref_subst(e.arg, dct), e.size, segm)
    elif k == 'ExprSlice':
        n = ex.ExprSlice(ref_subst(e.arg, dct), e.start, e.stop)
    elif k == 'ExprCompose':
        n = ex.ExprCompose([(ref_subst(a, dct), s, t) for a, s, t in e.args])
    elif k == 'ExprCond':
        n = ex.ExprCond(ref_subst(e.cond, dct), ref_subst(e.src1, dct), ref_subst(e.src2, dct))
    elif k == 'ExprOp':
        n = ex.ExprOp(e.op, *[ref_subst(a, dct) for a in e.args])
    elif k == 'ExprAff':
        n = ex.ExprAff.__new__(ex.ExprAff)
        n.dst, n.src = ref_subst(e.dst, dct), ref_subst(e.src, dct)
    else:
        raise ValueError(k)
    return dct.get(exprgen.canon(n), n)


def mutations(e, rng):
    """Yield (node kind, field, mutated tree) with exactly one field of one node changed."""
    ex, mi = exprgen.M()

    def rebuild(e, target, repl):
        if e is target:
            return repl
        k = e.__class__.__name__
        if k in ('ExprInt', 'ExprId'):
            return e
        if k == 'ExprMem':
            segm = e.segm
            if hasattr(segm, 'visit'):
                segm = rebuild(segm, target, repl)
            return ex.ExprMem(rebuild(e.arg, target, repl), e.size, segm)
        if k == 'ExprSlice':
            return ex.ExprSlice(rebuild(e.arg, target, repl), e.start, e.stop)
        if k == 'ExprCompose':
            return ex.ExprCompose([(rebuild(a, target, repl), s, t) for a, s, t in e.args])
        if k == 'ExprCond':
            return ex.ExprCond(rebuild(e.cond, target, repl), rebuild(e.src1, target, repl), rebuild(e.src2, target, repl))
        if k == 'ExprOp':
            return ex.ExprOp(e.op, *[rebuild(a, target, repl) for a in e.args])
        if k == 'ExprAff':
            n = ex.ExprAff.__new__(ex.ExprAff)
            n.dst, n.src = rebuild(e.dst, target, repl), rebuild(e.src, target, repl)
            return n
        raise ValueError(k)

    nodes = list(all_nodes_ids(e).values())
    for nd in nodes:
        k = nd.__class__.__name__
        muts = []
        if k == 'ExprInt':
            w = nd.arg.size
            muts.append(('value', exprgen.Int(int(nd.arg) ^ 1, w)))
            if w > 8:
                muts.append(('value-top-bit', exprgen.Int(int(nd.arg) ^ (1 << (w - 1)), w)))
            if w == 128:
                muts.append(('value-bit-64', exprgen.Int(int(nd.arg) ^ (1 << 64), w)))
            if w >= 64:
                # another constant with the same Python integer hash (same residue modulo 2^61-1)
                v2 = int(nd.arg) + (1 << 61) - 1
                if v2 >= (1 << w):
                    v2 = int(nd.arg) - ((1 << 61) - 1)
                if 0 <= v2 < (1 << w):
                    muts.append(('value-same-pyhash', exprgen.Int(v2, w)))
            if w > 1 and (int(nd.arg) >> (w - 1)) & 1 and nd.arg.__class__.__name__.startswith('uint'):
                # the same bit pattern held as a signed constant: whatever == says, equal constants must hash equally
                muts.append(('signedness', ex.ExprInt(getattr(mi, 'int%d' % w)(int(nd.arg) - (1 << w)))))
            w2 = {1: 8, 8: 16, 16: 32, 32: 64, 64: 32, 128: 64}[w]
            if int(nd.arg) < (1 << min(w, w2)):
                muts.append(('size', exprgen.Int(int(nd.arg), w2)))
        elif k == 'ExprId':
            muts.append(('name', ex.ExprId(nd.name + 'x', nd.size)))
            muts.append(('size', ex.ExprId(nd.name, {1: 8, 8: 16, 16: 32, 32: 64, 64: 32}.get(nd.size, 32))))
        elif k == 'ExprMem':
            muts.append(('size', ex.ExprMem(nd.arg, {8: 16, 16: 32, 32: 8, 64: 32}.get(nd.size, 8), nd.segm)))
            if nd.segm is None:
                muts.append(('segm', ex.ExprMem(nd.arg, nd.size, ex.ExprId('gs', 16))))
            else:
                muts.append(('segm', ex.ExprMem(nd.arg, nd.size, None)))
                muts.append(('segm-other', ex.ExprMem(nd.arg, nd.size, ex.ExprId('ss', 16))))
            muts.append(('arg', ex.ExprMem(ex.ExprOp('+', nd.arg, exprgen.Int(1, irsem.width(nd.arg))), nd.size, nd.segm)))
        elif k == 'ExprSlice':
            w = irsem.width(nd.arg)
            if nd.stop < w:
                muts.append(('stop', ex.ExprSlice(nd.arg, nd.start, nd.stop + 1)))
                muts.append(('start+stop', ex.ExprSlice(nd.arg, nd.start + 1, nd.stop + 1)))
            if nd.start > 0:
                muts.append(('start', ex.ExprSlice(nd.arg, nd.start - 1, nd.stop)))
            # windows whose bounds combine to the same number under xor / sum (what a careless digest would mix)
            for m in (1, 2, 4, 8, 16, 32):
                s2, t2 = nd.start ^ m, nd.stop ^ m
                if 0 <= s2 < t2 <= w and (s2, t2) != (nd.start, nd.stop) and t2 - s2 == nd.stop - nd.start:
                    muts.append(('window-same-xor', ex.ExprSlice(nd.arg, s2, t2)))
                    break
            if nd.start >= 1 and nd.stop + 1 <= w and nd.stop - nd.start > 2:
                muts.append(('window-same-sum', ex.ExprSlice(nd.arg, nd.start - 1, nd.stop + 1)))
        elif k == 'ExprCompose':
            if len(nd.args) >= 2:
                muts.append(('order', ex.ExprCompose(list(reversed(nd.args)))))
                a0, a1 = nd.args[0], nd.args[1]
                if a0[2] - a0[1] > 1:
                    muts.append(('slot-bounds', ex.ExprCompose([(a0[0], a0[1], a0[2] - 1), (a1[0], a1[1] - 1, a1[2])] + list(nd.args[2:]))))
                muts.append(('arity', ex.ExprCompose(list(nd.args[:-1]))))
                muts.append(('arity-prefix-extended', ex.ExprCompose(list(nd.args) + [(exprgen.Int(0, 8), nd.args[-1][2], nd.args[-1][2] + 8)])))
        elif k == 'ExprCond':
            muts.append(('arms-swapped', ex.ExprCond(nd.cond, nd.src2, nd.src1)))
            muts.append(('cond', ex.ExprCond(ex.ExprOp('-', nd.cond), nd.src1, nd.src2)))
        elif k == 'ExprOp':
            other = {'+': '^', '^': '+', '*': '&', '&': '|', '|': '&', '-': '!', '<<': '>>', '>>': 'a>>', 'a>>': '>>',
                     '<<<': '>>>', '>>>': '<<<', '==': '^', 'parity': '-'}.get(nd.op, '+')
            muts.append(('op', ex.ExprOp(other, *nd.args)))
            if len(nd.args) >= 2:
                muts.append(('arity', ex.ExprOp(nd.op, *nd.args[:-1])))
                muts.append(('arity-extended', ex.ExprOp(nd.op, *(list(nd.args) + [nd.args[0]]))))
                if exprgen.canon(nd.args[0]) != exprgen.canon(nd.args[-1]):
                    muts.append(('arg-order', ex.ExprOp(nd.op, *reversed(nd.args))))
        elif k == 'ExprAff':
            if nd is e:
                n = ex.ExprAff.__new__(ex.ExprAff)
                n.dst, n.src = nd.dst, ex.ExprOp('-', nd.src)
                muts.append(('src', n))
        for field, repl in muts:
            if nd is e:
                yield k, field, repl
            else:
                yield k, field, rebuild(e, nd, repl)


def values(e, envs):
    out = []
    for env in envs:
        try:
            out.append(irsem.evaluate(e, env))
        except (irsem.Undefined, irsem.Uninterpreted):
            out.append(None)
    return out


def check_tree(sh, e, rng, seedtag):
    ex, mi = exprgen.M()
    c = exprgen.canon(e)
    is_aff = e.__class__.__name__ == 'ExprAff'
    wit = {'tree': c, 'str': str(e)}
    envs = [irsem.Env(seed=(seedtag, i), segmented=True) for i in range(3)]
    val_of = (lambda t: values(t.src, envs) + values(t.dst, envs) if t.__class__.__name__ == 'ExprAff' and t.dst.__class__.__name__ != 'ExprId' else (values(t.src, envs) if t.__class__.__name__ == 'ExprAff' else values(t, envs)))

    def law(name, node, field, detail, extra=None):
        w = dict(wit)
        w.update(extra or {})
        w['law'] = name
        sh.violation('%s/%s/%s' % (name, node, field), detail, w)

    top = e.__class__.__name__
    # --- equality / hash on an independently built twin
    twin = exprgen.fresh_copy(e)
    sh.case(('eq', c))
    try:
        if not (e == twin) or (e != twin):
            law('eq-twin-unequal', top, '-', 'independently built equal trees compare unequal: %s' % e)
        elif hash(e) != hash(twin):
            law('eq-without-hash', top, '-', 'equal trees hash differently: %s' % e)
        if not (e == e):
            law('eq-not-reflexive', top, '-', str(e))
        if (e == twin) != (twin == e):
            law('eq-not-symmetric', top, '-', str(e))
    except Exception as exn:
        law('eq-raises:%s' % type(exn).__name__, top, '-', '%r on %s' % (exn, e))
    # --- a twin that differs only in attributes equality does not look at (ExprId.is_term): whatever the library's == says,
    # equal objects must hash equally, otherwise dict/set based substitution silently misses them
    try:
        dflags = {}
        for t in exprgen.subterms(e):
            if t.__class__.__name__ == 'ExprId':
                dflags[exprgen.canon(t)] = ex.ExprId(t.name, t.size, is_term=not t.is_term, is_reg=t.is_reg)
        if dflags:
            twin2 = ref_subst(e, dflags)
            sh.case(('eq-flags', c))
            if e == twin2 and hash(e) != hash(twin2):
                law('eq-without-hash', top, 'is_term', 'trees that differ only in ExprId.is_term compare equal but hash differently: %s' % e)
    except Exception as exn:
        law('eq-raises:%s' % type(exn).__name__, top, 'is_term', '%r on %s' % (exn, e))
    # --- single-field mutations must compare unequal (or at least have equal hash and value)
    nm = 0
    for k, field, f in mutations(e, rng):
        if exprgen.canon(f) == c and field != 'signedness':
            continue
        nm += 1
        sh.case(('mut', c, k, field, exprgen.canon(f)), cls='mut:%s.%s' % (k, field))
        try:
            r1, r2 = (e == f), (f == e)
        except Exception as exn:
            law('eq-raises:%s' % type(exn).__name__, k, field, '%r comparing %s and %s' % (exn, e, f), {'other': exprgen.canon(f)})
            continue
        if r1 != r2:
            law('eq-not-symmetric', k, field, '%s == %s is %r but reversed %r' % (e, f, r1, r2), {'other': exprgen.canon(f)})
        if r1 or r2:
            # equal although a field differs: a violation iff hash, width or value can differ
            bad = None
            try:
                if hash(e) != hash(f):
                    bad = 'hash'
                elif irsem.width(e) != irsem.width(f):
                    bad = 'width'
                elif val_of(e) != val_of(f):
                    bad = 'value'
                elif field.startswith('segm'):
                    bad = 'segment'
            except irsem.IllFormed:
                bad = 'ill-formed'
            if bad:
                law('eq-ignores-field', k, field + '/' + bad, '%s == %s' % (e, f), {'other': exprgen.canon(f)})
    # --- copy
    sh.case(('copy', c))
    try:
        cp = e.copy()
        if exprgen.canon(cp) != c or not (cp == e):
            law('copy-differs', top, '-', 'copy of %s is %s' % (e, cp))
        shared = set(all_nodes_ids(cp)) & set(all_nodes_ids(e))
        if shared:
            kinds = sorted(set(all_nodes_ids(e)[i].__class__.__name__ for i in shared))
            law('copy-shares-node', kinds[0], '-', 'copy shares %d node objects (%s) with %s' % (len(shared), kinds, e))
        for t in (cp, twin):
            if (e == t and t == cp) and not (e == cp):
                law('eq-not-transitive', top, '-', str(e))
    except Exception as exn:
        law('copy-raises:%s' % type(exn).__name__, top, '-', '%r on %s' % (exn, e))
    # --- visit(identity)
    sh.case(('visit', c))
    try:
        v = e.visit(lambda x: x)
        if exprgen.canon(v) != c:
            # which node kind lost something?
            law('visit-identity-differs', _first_diff_kind(e, v), '-', 'visit(identity) of %s gives %s' % (e, v), {'got': exprgen.canon(v)})
    except Exception as exn:
        law('visit-raises:%s' % type(exn).__name__, top, '-', '%r on %s' % (exn, e))
    # --- replace_expr for each distinct sub-term
    subs = {}
    for t in exprgen.subterms(e):
        if t is e or t.__class__.__name__ == 'ExprAff':
            continue
        subs.setdefault(exprgen.canon(t), t)
    # segments too
    for nd in all_nodes_ids(e).values():
        if nd.__class__.__name__ == 'ExprMem' and hasattr(nd.segm, 'visit'):
            subs.setdefault(exprgen.canon(nd.segm), nd.segm)
    keys = sorted(subs)
    if len(keys) > 10:
        keys = rng.sample(keys, 10)
    for i, ck in enumerate(keys):
        t = subs[ck]
        try:
            w = irsem.width(t)
        except irsem.IllFormed:
            continue
        if is_aff and (exprgen.canon(e.dst) == ck):
            continue   # replacing the destination itself changes what is assigned, not a value law
        z = ex.ExprId('z_fresh%d' % w, w)
        sh.case(('replace', c, ck), cls='replace:%s' % t.__class__.__name__)
        try:
            got = e.replace_expr({exprgen.fresh_copy(t): z})
        except Exception as exn:
            law('replace-raises:%s' % type(exn).__name__, t.__class__.__name__, '-', '%r replacing %s in %s' % (exn, t, e), {'sub': ck})
            continue
        want = ref_subst(e, {ck: z})
        if exprgen.canon(got) != exprgen.canon(want):
            law('replace-structure', t.__class__.__name__, _where(e, ck), 'replace %s by z in %s gives %s, reference substitution %s' % (t, e, got, want), {'sub': ck})
            continue
        # value law (skip when t is only a segment or lies under an uninterpreted operator)
        try:
            for env in envs:
                if is_aff:
                    break
                tv = irsem.evaluate(t, env)
                env2 = env.copy()
                env2.ids['z_fresh%d' % w] = tv
                if irsem.evaluate(got, env2) != irsem.evaluate(e, env):
                    law('replace-value', t.__class__.__name__, '-', 'value changed replacing %s in %s' % (t, e), {'sub': ck})
                    break
        except (irsem.Undefined, irsem.Uninterpreted, irsem.IllFormed):
            pass
    # --- the same substitutions on a copy whose memory cells (and root) are marked is_term, as the evaluator marks the cells it
    # hands back: the mark is not part of the structure and must not stop a traversal
    try:
        ef = exprgen.fresh_copy(e)
        marked = 0
        for t in exprgen.subterms(ef):
            if t.__class__.__name__ in ('ExprMem', 'ExprOp', 'ExprCond'):
                t.is_term = True
                marked += 1
        if marked:
            for ck in keys[:4]:
                t = subs[ck]
                if is_aff and (exprgen.canon(e.dst) == ck):
                    continue
                w = irsem.width(t)
                z = ex.ExprId('z_fresh%d' % w, w)
                sh.case(('replace-marked', c, ck), cls='replace-marked:%s' % t.__class__.__name__)
                got = ef.replace_expr({exprgen.fresh_copy(t): z})
                want = ref_subst(e, {ck: z})
                if exprgen.canon(got) != exprgen.canon(want):
                    law('replace-structure', t.__class__.__name__, 'under-is_term-node/' + _where(e, ck), 'replace %s by z in %s (compound nodes marked is_term) gives %s, reference %s' % (t, e, got, want), {'sub': ck})
    except irsem.IllFormed:
        pass
    except Exception as exn:
        law('replace-raises:%s' % type(exn).__name__, top, 'under-is_term-node', '%r on %s' % (exn, e))
    # --- coincidence substitutions: replace a subterm by ANOTHER subterm of the same tree and width (the result then
    # contains equal siblings: 'unchanged, return self' shortcuts that compare with the wrong sibling only fail here)
    byw = {}
    for ck in sorted(subs):
        try:
            byw.setdefault(irsem.width(subs[ck]), []).append(ck)
        except irsem.IllFormed:
            pass
    pairs = []
    for w_, cks in sorted(byw.items()):
        for a_ in cks:
            for b_ in cks:
                if a_ != b_ and a_ not in b_:      # the replacement does not contain the replaced term
                    pairs.append((a_, b_))
    if len(pairs) > 8:
        pairs = rng.sample(pairs, 8)
    for ck, cu in pairs:
        t, u = subs[ck], subs[cu]
        if is_aff and (exprgen.canon(e.dst) == ck):
            continue
        sh.case(('replace-by-sibling', c, ck, cu), cls='replace-sibling:%s' % t.__class__.__name__)
        try:
            got = e.replace_expr({exprgen.fresh_copy(t): exprgen.fresh_copy(u)})
        except Exception as exn:
            law('replace-raises:%s' % type(exn).__name__, t.__class__.__name__, 'by-sibling', '%r replacing %s by %s in %s' % (exn, t, u, e), {'sub': ck, 'by': cu})
            continue
        want = ref_subst(e, {ck: u})
        if exprgen.canon(got) != exprgen.canon(want):
            law('replace-structure', t.__class__.__name__, 'by-sibling/' + _where(e, ck), 'replace %s by %s in %s gives %s, reference substitution %s' % (t, u, e, got, want), {'sub': ck, 'by': cu})
    # --- an assignment whose destination identifier is replaced by a slice of a location of another width: the result must
    # assign exactly those bits of the location (and keep the others), whatever width the location has
    if is_aff and e.dst.__class__.__name__ == 'ExprId' and e.dst.size in (8, 16, 32):
        w = e.dst.size
        for W in (16, 32, 64):
            for a_ in sorted(set((0, 8, W - w))):
                if a_ < 0 or a_ + w > W or (a_ == 0 and W == w):
                    continue
                X = ex.ExprId('X_loc%d' % W, W)
                sl = ex.ExprSlice(X, a_, a_ + w)
                sh.case(('aff-slice-dst', c, W, a_), cls='aff-slice-dst:%d' % W)
                try:
                    got = e.replace_expr({exprgen.fresh_copy(e.dst): sl})
                    for env in envs:
                        xv = irsem.evaluate(X, env)
                        env2 = env.copy()
                        env2.ids[e.dst.name] = (xv >> a_) & irsem.mask(w)
                        try:
                            sv = irsem.evaluate(e.src, env2)
                        except (irsem.Undefined, irsem.Uninterpreted):
                            continue
                        want_x = (xv & ~(irsem.mask(w) << a_)) | (sv << a_)
                        if got.dst.__class__.__name__ == 'ExprSlice':
                            ok = exprgen.canon(got.dst) == exprgen.canon(sl) and irsem.evaluate(got.src, env) == sv
                        else:
                            ok = exprgen.canon(got.dst) == exprgen.canon(X) and irsem.width(got.src) == W and irsem.evaluate(got.src, env) == want_x
                        if not ok:
                            law('replace-value', 'ExprAff', 'destination-by-slice/w%d' % W, 'replacing the destination of %s by %s gives %s: the location does not end up with 0x%x' % (e, sl, got, want_x))
                            break
                except (irsem.Undefined, irsem.Uninterpreted):
                    pass
                except irsem.IllFormed as exn:
                    law('replace-ill-formed', 'ExprAff', 'destination-by-slice/w%d' % W, '%r replacing the destination of %s by %s' % (exn, e, sl))
                except Exception as exn:
                    law('replace-raises:%s' % type(exn).__name__, 'ExprAff', 'destination-by-slice/w%d' % W, '%r replacing the destination of %s by %s' % (exn, e, sl))
    # --- maps whose values are themselves keys (an exchange, a rotation, a chain): substitution is simultaneous, a replaced
    # term is not looked up again
    leafs = [ck for ck in sorted(subs) if subs[ck].__class__.__name__ in ('ExprId', 'ExprInt')]
    by_w = {}
    for ck in leafs:
        by_w.setdefault(irsem.width(subs[ck]), []).append(ck)
    for w_, cks in sorted(by_w.items()):
        if len(cks) < 2 or (is_aff and any(exprgen.canon(e.dst) == ck for ck in cks[:3])):
            continue
        a_, b_ = cks[0], cks[1]
        maps = [('exchange', {a_: subs[b_], b_: subs[a_]})]
        fresh = ex.ExprOp('+', ex.ExprId('z_fresh%d' % w_, w_), exprgen.Int(0x2b & irsem.mask(w_), w_)) if w_ > 1 else ex.ExprId('z_fresh1', 1)
        maps.append(('chain', {a_: subs[b_], b_: fresh}))
        if len(cks) >= 3:
            c_ = cks[2]
            maps.append(('rotation', {a_: subs[b_], b_: subs[c_], c_: subs[a_]}))
        for mname, mp in maps:
            sh.case(('replace-map', c, mname, w_), cls='replace-map:%s' % mname)
            try:
                got = e.replace_expr(dict((exprgen.fresh_copy(subs[k_]), exprgen.fresh_copy(v_)) for k_, v_ in mp.items()))
            except Exception as exn:
                law('replace-raises:%s' % type(exn).__name__, top, 'map-' + mname, '%r on %s' % (exn, e))
                continue
            want = ref_subst(e, mp)
            if exprgen.canon(got) != exprgen.canon(want):
                law('replace-structure', top, 'map-whose-values-are-keys/' + mname, 'replacing %s in %s gives %s, simultaneous substitution gives %s' % (
                    ', '.join('%s -> %s' % (subs[k_], v_) for k_, v_ in mp.items()), e, got, want))
        break
    # --- canonize preserves the value
    if not is_aff:
        sh.case(('canonize', c))
        try:
            cz = e.canonize()
            v1, v2 = values(e, envs), values(cz, envs)
            if irsem.width(cz) != irsem.width(e) or any(a is not None and b is not None and a != b for a, b in zip(v1, v2)):
                law('canonize-value', _canon_culprit(e), '-', 'canonize(%s) = %s evaluates differently' % (e, cz), {'got': exprgen.canon(cz)})
        except irsem.IllFormed as exn:
            law('canonize-ill-formed', top, '-', '%r on %s' % (exn, e))
        except Exception as exn:
            law('canonize-raises:%s' % type(exn).__name__, top, '-', '%r on %s' % (exn, e))
    sh.sample({'tree': str(e), 'mutations_compared': nm, 'subterms_replaced': len(keys)})


def _first_diff_kind(a, b):
    """Kind of the outermost node where two trees start to differ structurally."""
    ka, kb = a.__class__.__name__, b.__class__.__name__
    if ka != kb:
        return ka
    if ka == 'ExprMem':
        if exprgen.canon(a.arg) != exprgen.canon(b.arg):
            return _first_diff_kind(a.arg, b.arg)
        return 'ExprMem'
    kids = lambda e: ([e.arg] if ka == 'ExprSlice' else [x[0] for x in e.args] if ka == 'ExprCompose' else
                      [e.cond, e.src1, e.src2] if ka == 'ExprCond' else list(e.args) if ka == 'ExprOp' else
                      [e.dst, e.src] if ka == 'ExprAff' else [])
    A, B = kids(a), kids(b)
    if len(A) != len(B):
        return ka
    for x, y in zip(A, B):
        if exprgen.canon(x) != exprgen.canon(y):
            return _first_diff_kind(x, y)
    return ka


def _where(e, ck):
    """Position class of the sub-term ck inside e: which parent kind/field holds it."""
    for nd in all_nodes_ids(e).values():
        k = nd.__class__.__name__
        if k == 'ExprMem':
            if hasattr(nd.segm, 'visit') and exprgen.canon(nd.segm) == ck:
                return 'in:ExprMem.segm'
            if exprgen.canon(nd.arg) == ck:
                return 'in:ExprMem.arg'
        elif k == 'ExprSlice' and exprgen.canon(nd.arg) == ck:
            return 'in:ExprSlice.arg'
        elif k == 'ExprCompose' and any(exprgen.canon(a[0]) == ck for a in nd.args):
            return 'in:ExprCompose'
        elif k == 'ExprCond':
            for f in ('cond', 'src1', 'src2'):
                if exprgen.canon(getattr(nd, f)) == ck:
                    return 'in:ExprCond.' + f
        elif k == 'ExprOp' and any(exprgen.canon(a) == ck for a in nd.args):
            return 'in:ExprOp'
        elif k == 'ExprAff':
            if exprgen.canon(nd.src) == ck:
                return 'in:ExprAff.src'
            if exprgen.canon(nd.dst) == ck:
                return 'in:ExprAff.dst'
    return 'in:?'


def _canon_culprit(e):
    """Smallest sub-tree whose canonize() changes its value: report its root operator class."""
    envs = [irsem.Env(seed=('cz', i), segmented=True) for i in range(3)]
    best = None
    for t in exprgen.subterms(e):
        try:
            cz = t.canonize()
            if any(a is not None and b is not None and a != b for a, b in zip(values(t, envs), values(cz, envs))):
                n = exprgen.count_nodes(t)
                if best is None or n < best[0]:
                    best = (n, t)
        except Exception:
            continue
    if best is None:
        return e.__class__.__name__
    t = best[1]
    if t.__class__.__name__ == 'ExprOp':
        return 'ExprOp:%s' % ('commutative' if t.op in exprgen.AC else 'non-commutative:' + t.op)
    return t.__class__.__name__


def make_tree(rng):
    ex, mi = exprgen.M()
    g = exprgen.Gen(rng, ops=('+', '*', '^', '&', '|', '+', '^'), segm=True)
    w = rng.choice((8, 16, 32, 32, 32, 64, 1))
    d = rng.choice((1, 2, 2, 3, 3, 4))
    e = g.gen(w, d)
    if rng.random() < 0.2:
        if rng.random() < 0.5 or w < 8:
            dst = g.ident(w, 'r')
        else:
            dst = g.memcell(w, 1)
        e = ex.ExprAff(dst, e)
    return e


def shards(tier, seed):
    n = 64 if tier == 'quick' else 1600
    return [('rand', i) for i in range(n)] + [('fixed',)] + [('produced', i) for i in range(8)]


def produced_nodes(sh, e, tag):
    """Equality / hash laws on nodes the LIBRARY built or edited (the other laws look at trees the harness built): every node of
    expr_simp(e), e.copy(), e.canonize() and of a substituted tree must equal an independently built node of the same structure
    and hash like it (a hash cached before an in-place edit, a memo attribute that takes part in the comparison ... show here)."""
    from miasmx.expression import expression_helper as eh
    ex, mi = exprgen.M()
    c = exprgen.canon(e)
    outs = []
    for name, f in (('expr_simp', lambda t: eh.expr_simp(t)), ('copy', lambda t: t.copy()), ('canonize', lambda t: t.canonize() if hasattr(t, 'canonize') else None),
                    ('simp-of-copy', lambda t: eh.expr_simp(t.copy())), ('simp-twice', lambda t: eh.expr_simp(eh.expr_simp(t)))):
        try:
            r = f(exprgen.fresh_copy(e))
        except Exception:
            sh.counters['produced_raises:' + name] += 1
            continue
        if r is not None and hasattr(r, 'visit'):
            outs.append((name, r))
    leaves = [t for t in exprgen.subterms(e) if t.__class__.__name__ == 'ExprId']
    if len(leaves) >= 1:
        try:
            src = exprgen.fresh_copy(e)
            l0 = leaves[0]
            outs.append(('replace_expr', src.replace_expr({l0: ex.ExprOp('+', l0, exprgen.Int(1, l0.size))})))
        except Exception:
            sh.counters['produced_raises:replace_expr'] += 1
    for name, r in outs:
        for n in exprgen.subterms(r):
            k = n.__class__.__name__
            try:
                tw = exprgen.fresh_copy(n)
            except Exception:
                continue
            sh.case(('produced', name, c, exprgen.canon(n)), cls='produced:%s/%s' % (name, k))
            wit = {'tree': c, 'str': str(e), 'producer': name, 'node': exprgen.canon(n), 'produced': True}
            try:
                if not (n == tw) or (n != tw) or not (tw == n):
                    sh.violation('eq-twin-unequal/%s/produced-by-%s' % (k, name), 'a node of %s(%s) compares unequal to an independently built node of the same structure: %s' % (name, e, n), wit)
                elif hash(n) != hash(tw):
                    sh.violation('eq-without-hash/%s/produced-by-%s' % (k, name), 'a node of %s(%s) equals an independently built node of the same structure but hashes differently: %s' % (name, e, n), wit)
                elif len({n, tw}) != 1 or tw not in {n: 1}:
                    sh.violation('eq-without-hash/%s/produced-by-%s/set' % (k, name), 'a node of %s(%s) and its independently built twin are two members of a set: %s' % (name, e, n), wit)
            except Exception as exn:
                sh.violation('eq-raises:%s/%s/produced-by-%s' % (type(exn).__name__, k, name), '%r comparing a node of %s(%s) with its twin' % (exn, name, e), wit)


def produced_corpus(part, tier, seed):
    from vf.checks import c05
    out = []
    j = 0
    for fam, t in c05.slice_compose_templates():
        if j % 8 == part:
            out.append(t)
        j += 1
    for w in (8, 32) if tier == 'quick' else (1, 8, 16, 32, 64):
        for fam, t in c05.templates(w):
            if j % 8 == part and (tier != 'quick' or j % 3 == 0):
                out.append(t)
            j += 1
    rng = common.rng_for(seed, 'C15produced', part)
    for i in range(60 if tier == 'quick' else 600):
        out.append(make_tree(rng))
    return out


def fixed_trees():
    """Deterministic trees covering every node kind x feature (so class coverage is seed independent)."""
    ex, mi = exprgen.M()
    I, Id = exprgen.Int, ex.ExprId
    a, b, c = Id('a32', 32), Id('b32', 32), Id('c32', 32)
    p = Id('p32', 32)
    ds = Id('ds', 16)
    out = [
        ex.ExprMem(p + I(4, 32), 32, ds), ex.ExprMem(p, 8, None), ex.ExprMem(ex.ExprMem(p, 32, ds), 16, Id('es', 16)),
        a - b, a << b, ex.ExprOp('>>', a, I(3, 32)), ex.ExprOp('a>>', a, b), ex.ExprOp('<<<', a, b), ex.ExprOp('>>>', b, a),
        ex.ExprOp('==', b, a), ex.ExprOp('-', b, a), ex.ExprOp('+', c, b, a), ex.ExprOp('^', c, I(5, 32), a),
        ex.ExprCond(b, a, c), ex.ExprCond(ex.ExprOp('-', b, a), c, a),
        ex.ExprSlice(a, 8, 16), ex.ExprSlice(ex.ExprOp('-', c, a), 0, 8),
        ex.ExprCompose([(ex.ExprSlice(b, 0, 16), 0, 16), (ex.ExprSlice(a, 16, 32), 16, 32)]),
        ex.ExprCompose([(Id('z8', 8), 0, 8), (ex.ExprOp('-', Id('y8', 8), Id('x8', 8)), 8, 16)]),
        ex.ExprAff(a, ex.ExprOp('-', c, b)), ex.ExprAff(ex.ExprMem(p + a, 32, ds), ex.ExprOp('<<', c, b)),
        ex.ExprAff(ex.ExprSlice(a, 0, 8), Id('x8', 8)),
        ex.ExprOp('parity', ex.ExprOp('-', b, a)), ex.ExprOp('*', b, a, c),
        ex.ExprOp('|', ex.ExprOp('<<', c, a), ex.ExprOp('>>', b, a)),
    ]
    # constants with the top bit set at every width, and the slices a flags register is cut into
    out += [ex.ExprOp('+', a, I(0xfffffffb, 32)), ex.ExprOp('^', Id('x8', 8), I(0x80, 8)), ex.ExprOp('&', Id('x16', 16), I(0xffff, 16)),
            ex.ExprOp('+', Id('q64', 64), I((1 << 64) - 3, 64)), ex.ExprSlice(a, 0, 1), ex.ExprSlice(a, 2, 3), ex.ExprSlice(a, 0, 8), ex.ExprSlice(a, 16, 24), ex.ExprSlice(a, 4, 12)]
    # xmm-sized (128-bit) constants and cells
    x128 = Id('xmm0', 128)
    for v in (0, 1, 1 << 64, 1 << 127, (1 << 128) - 1, 0x0123456789abcdef, (1 << 64) | 5):
        out.append(ex.ExprOp('^', x128, I(v, 128)))
        out.append(ex.ExprCompose([(I(v & 0xffffffffffffffff, 64), 0, 64), (ex.ExprSlice(I(v, 128), 64, 128), 64, 128)]))
    out.append(ex.ExprMem(p, 128))
    out.append(ex.ExprCond(I(1 << 64, 128), a, b))
    # identifiers created as registers / as terminal symbols (the lifter's are): every law again on trees over them
    ra, rb = Id('eax', 32, is_reg=True), Id('ebx', 32, is_reg=True)
    ta = Id('init_eax', 32, is_term=True)
    rds = Id('ds', 16, is_reg=True)
    out += [ra, ra + rb, ex.ExprSlice(ra, 0, 16), ex.ExprMem(ra + I(4, 32), 32, rds), ex.ExprCond(rb, ra, ta), ex.ExprOp('^', ta, ra),
            ex.ExprCompose([(ex.ExprSlice(ra, 0, 8), 0, 8), (ex.ExprSlice(ra, 8, 16), 8, 16), (ex.ExprSlice(rb, 0, 16), 16, 32)]),
            ex.ExprAff(ra, ex.ExprOp('-', rb, ta)), ex.ExprMem(ta, 8)]
    return out


def run_shard(shard, tier, seed):
    sh = common.Shard()
    if shard[0] == 'fixed':
        rng = common.rng_for(0, 'C15fixed')
        for i, e in enumerate(fixed_trees()):
            check_tree(sh, e, rng, ('f', i))
        return sh
    if shard[0] == 'produced':
        for e in produced_corpus(shard[1], tier, seed):
            if e.__class__.__name__ == 'ExprAff' or exprgen.count_nodes(e) < 2:
                continue
            produced_nodes(sh, e, shard[1])
        return sh
    rng = common.rng_for(seed, 'C15', shard[1])
    n = 120 if tier == 'quick' else 250
    for i in range(n):
        e = make_tree(rng)
        if exprgen.count_nodes(e) < 2:
            continue
        check_tree(sh, e, rng, (seed, shard[1], i))
    return sh


def replay(w):
    # witnesses carry the canonical tree; rebuild it through a tiny parser
    sh = common.Shard()
    e = parse_canon(w['tree'])
    if w.get('produced'):
        produced_nodes(sh, e, 0)
        return [(v['key'], v['detail']) for v in sh.violations]
    check_tree(sh, e, common.rng_for(0, 'replay'), ('replay',))
    return [(v['key'], v['detail']) for v in sh.violations]


def parse_canon(s):
    """Inverse of exprgen.canon."""
    ex, mi = exprgen.M()
    pos = [0]

    def peek():
        return s[pos[0]] if pos[0] < len(s) else ''

    def eat(ch):
        assert s[pos[0]:pos[0] + len(ch)] == ch, (s, pos[0], ch)
        pos[0] += len(ch)

    def until(chars):
        i = pos[0]
        while i < len(s) and s[i] not in chars:
            i += 1
        r = s[pos[0]:i]
        pos[0] = i
        return r

    def num():
        t = until(',;)]|=')
        return int(t)

    def node():
        ch = peek()
        if ch == 'I':
            eat('I'); w = int(until(':')); eat(':'); v = int(until(',;)]|='), 16)
            return exprgen.Int(v, w)
        if ch == 'V':
            eat('V'); w = int(until(':')); eat(':'); nm = until(',;)]|=')
            return ex.ExprId(nm, w)
        if ch == 'M':
            eat('M'); w = int(until('[')); eat('['); a = node(); segm = None
            if peek() == '|':
                eat('|'); segm = node()
            eat(']')
            return ex.ExprMem(a, w, segm)
        if ch == 'S':
            eat('S('); a = node(); eat(','); st = num(); eat(','); sp = num(); eat(')')
            return ex.ExprSlice(a, st, sp)
        if ch == 'C':
            eat('C('); args = []
            while True:
                a = node(); eat(','); st = num(); eat(','); sp = num()
                args.append((a, st, sp))
                if peek() == ';':
                    eat(';'); continue
                break
            eat(')')
            return ex.ExprCompose(args)
        if ch == '?':
            eat('?('); c = node(); eat(','); a = node(); eat(','); b = node(); eat(')')
            return ex.ExprCond(c, a, b)
        if ch == 'O':
            eat('O'); op = until('('); eat('('); args = []
            if peek() != ')':
                while True:
                    args.append(node())
                    if peek() == ',':
                        eat(','); continue
                    break
            eat(')')
            return ex.ExprOp(op, *args)
        if ch == 'A':
            eat('A('); d = node(); eat('='); sr = node(); eat(')')
            n = ex.ExprAff.__new__(ex.ExprAff)
            n.dst, n.src = d, sr
            return n
        raise ValueError('cannot parse %r at %d' % (s, pos[0]))
    r = node()
    return r
