"""C10 - decoder and assembler are total: reject cleanly, never crash or over-read.

Exception/termination monitor around dis / both renderers / asm / asm_att, an instrumented
byte stream recording every read, and the metamorphic equalities
  dis(stream(pad+b, offset=len(pad))) ~ dis(b),   dis(b[:l]) ~ dis(b),   dis(b[:k]) is None for k < l.
"""
import re
import sys
import traceback
from vf import gnuref, common, x86space

PROPERTY = 'C10'
RULE = ('bytes: every opcode cell (1-byte, 0F, 0F38, 0F3A maps) x all 256 ModRM values x SIB classes x filler classes, with no prefix, '
        'each single prefix, and prefix pairs (no "both decoders accept" filter), plus seeded random strings up to 16 bytes; for every '
        'accepted string also every truncation, the exact-length prefix, a decode from a stream at offsets 1/7/4096, and the same through a file-object stream, a virtual-memory stream and a bytearray. text: every '
        'line "<mnemonic> t1 t2 [t3]" over a lexical alphabet of ~45 tokens (registers of every file, size keywords, punctuation, numbers '
        'at width boundaries, a symbol) for 14 mnemonics in both syntaxes, plus token deletions/duplications/swaps of well-formed lines. '
        'A case = the byte string or the text line (+syntax); non-trivial = the decoder accepted the bytes / the assembler returned or '
        'raised its documented ValueError (every case exercises the monitor; distinct cases are counted).')
RULE += ' Round 6: the same bytes through a bytearray.'
RULE += ' Round 7: numeric literals of 20 to 20000 digits, decimal and hexadecimal, as immediate and displacement in both syntaxes.'
RULE += ' Round 8: strings with a size prefix given two to four times, on which the decoder may not consume more bytes than the reference decoder says the instruction has; every opcode cell decoded for the 16-bit code-segment configuration (attrib opmode/admode u16) under six prefix choices.'
RULE += ' Round 9: twelve of the longest encodings behind runs of 1 to 9 prefix bytes (strings of up to 24 bytes), every long or selected input also handed over as plain bytes; a 2^32-byte virtual address space with the instruction ending at its top; two streams over one file object used alternately; a stream over a bytearray patched in place between two decodes.'
ASSUMPTIONS = ['the documented rejection of asm/asm_att is ValueError (raised by their p_error handlers and by asm itself)',
               'hangs are bounded by a 64-read logical bound per decode; a 20 s wall watchdog per case is inconclusive, not a violation']


class Recorder(object):
    """Instrumented byte stream: counts reads and remembers the highest byte index touched."""

    def __init__(self, data, offset=0):
        from miasmx.core.bin_stream import bin_stream_str
        self.s = bin_stream_str(data, offset)
        self.reads = 0
        self.max_touched = -1

    @property
    def offset(self):
        return self.s.offset

    @offset.setter
    def offset(self, v):
        self.s.offset = v

    def readbs(self, l=1):
        self.reads += 1
        if self.reads > 64:
            raise common.StepBound('more than 64 reads for one instruction')
        r = self.s.readbs(l)
        self.max_touched = max(self.max_touched, self.s.offset - 1)
        return r


def site(exc_tb):
    """Innermost frame inside the repository: function name (never a line number)."""
    name = '?'
    for fs in traceback.extract_tb(exc_tb):
        if fs.filename.startswith(common.REPO + '/') or '/miasmx/' in fs.filename or '/ply/' in fs.filename:
            name = fs.name
    return name


def abstract_msg(e):
    m = str(e)
    m = re.sub(r"'[^']*'", "'_'", m)
    m = re.sub(r'"[^"]*"', '"_"', m)
    m = re.sub(r'0x[0-9a-fA-F]+|\d+', 'N', m)
    m = re.sub(r'\s+', ' ', m)
    return m[:60]


def exc_key(stage, e, tb, extra=''):
    if stage in ('asm', 'asm_att'):
        # text side: exception type + innermost repository function (messages depend on the token values)
        return '%s/%s/%s' % (stage, type(e).__name__, site(tb))
    return '%s/%s/%s/%s%s' % (stage, type(e).__name__, site(tb), abstract_msg(e), ('/' + extra) if extra else '')


def check_bytes(sh, b, cls=None, deep=True, attrib=None):
    from miasmx.arch.ia32_arch import x86mnemo
    wit = {'bytes': b.hex()}
    if attrib:
        wit['mode16'] = True
        deep = False
    rec = Recorder(b)
    try:
        with common.alarm_guard(20):
            ins = x86mnemo.dis(rec, attrib) if attrib else x86mnemo.dis(rec)
    except common.alarm_guard.Fired:
        sh.counters['watchdog_fired'] += 1
        return None
    except common.StepBound as e:
        sh.case(b, True, cls)
        sh.violation('dis/step-bound', 'dis(%s): %s' % (b.hex(), e), wit)
        return None
    except Exception as e:
        sh.case(b, True, cls)
        sh.violation(exc_key('dis', e, sys.exc_info()[2]), 'dis(%s) raised %r' % (b.hex(), e), wit)
        return None
    sh.case(b, ins is not None, cls)
    if len(b) > 12 or (b[0] & 7) == 3:
        # the same input handed over as plain bytes (the usual way to call dis) instead of as a stream object
        try:
            ib = x86mnemo.dis(b, attrib) if attrib else x86mnemo.dis(b)
            same = (ib is None) == (ins is None) and (ib is None or ib.l == ins.l)
            if not same:
                sh.violation('dis/bytes-input-differs-from-stream-input', 'dis(%s): %s from a stream object, %s from the bytes' % (b.hex(), 'None' if ins is None else ins.l, 'None' if ib is None else ib.l), wit)
        except Exception as e:
            sh.violation(exc_key('dis', e, sys.exc_info()[2]), 'dis(%s) on plain bytes raised %r' % (b.hex(), e), wit)
    if ins is None:
        return None
    l = ins.l
    # raw bytes / length / stream position
    if not (1 <= l <= len(b)) or bytes(ins.b) != b[:l]:
        sh.violation('stream/raw-bytes-or-length', 'dis(%s): l=%r b=%r' % (b.hex(), l, ins.b), wit)
        return ins
    if rec.offset != l:
        sh.violation('stream/position-after-decode', 'dis(%s): l=%d but stream left at %d' % (b.hex(), l, rec.offset), wit)
    if rec.max_touched >= l:
        sh.violation('stream/over-read/%s' % ins.m.name, 'dis(%s): l=%d but byte %d was read' % (b.hex(), l, rec.max_touched), wit)
    # renderings
    texts = {}
    for stage, fmt in (('intel-render', None), ('att-render', 'att_syntax binutils'), ('att-objdump-render', 'att_syntax objdump'), ('intel-objdump-render', 'intel_syntax noprefix objdump')):
        try:
            texts[stage] = ins.__str__(asm_format=fmt) if fmt else str(ins)
        except Exception as e:
            sh.violation(exc_key(stage.replace('-objdump', ''), e, sys.exc_info()[2], 'mnemo=' + ins.m.name), '%s of %s (%s) raised %r' % (stage, b.hex(), ins.m.name, e), wit)
    if not deep:
        return ins
    ref = (texts.get('intel-render'), l, ins.m.name)
    # exact-length buffer
    try:
        i2 = x86mnemo.dis(b[:l])
        if i2 is None or i2.l != l or (ref[0] is not None and str(i2) != ref[0]):
            sh.violation('stream/exact-length-buffer/%s' % ins.m.name, 'dis(%s) accepted with l=%d but dis of exactly those %d bytes gives %s' % (
                b.hex(), l, l, 'None' if i2 is None else str(i2)), wit)
    except Exception as e:
        sh.violation(exc_key('dis', e, sys.exc_info()[2]), 'dis(%s) raised %r' % (b[:l].hex(), e), {'bytes': b[:l].hex()})
    # truncations are absent
    for k in range(1, l):
        try:
            it = x86mnemo.dis(b[:k])
        except Exception as e:
            sh.violation(exc_key('dis', e, sys.exc_info()[2]), 'dis(%s) raised %r' % (b[:k].hex(), e), {'bytes': b[:k].hex()})
            continue
        sh.evaluations += 1
        if it is not None:
            sh.violation('stream/truncated-accepted/%s' % ins.m.name, 'dis(%s) has l=%d but its %d-byte prefix is accepted as %s' % (b.hex(), l, k, it), wit)
    # the other stream kinds of the library: a file object and a virtual address space (callable with a length); the whole
    # instruction, every truncation, and a decode at an offset
    import io
    from miasmx.core.bin_stream import bin_stream

    class _Virt(object):
        def __init__(self, data):
            self.data = data

        def __len__(self):
            return len(self.data)

        def __call__(self, start, stop, section=None):
            return self.data[start:stop]
    for kind, mk in (('file', lambda d, o: bin_stream(io.BytesIO(d), o)), ('virt', lambda d, o: bin_stream(_Virt(d), o)), ('bytearray', lambda d, o: bin_stream(bytearray(d), o))):
        for data, off, expect in [(b[:l], 0, True)] + [(b[:k], 0, False) for k in range(1, l)] + [(b'\x90' * 5 + b[:l], 5, True), (b'\x90' * 5 + b[:max(1, l - 1)], 5, l == 1)]:
            try:
                i4 = x86mnemo.dis(mk(data, off))
            except Exception as e:
                sh.violation(exc_key('stream-' + kind, e, sys.exc_info()[2]), 'dis from a %s stream of %s (offset %d) raised %r' % (kind, data.hex(), off, e), dict(wit, stream=kind))
                continue
            sh.evaluations += 1
            if expect and (i4 is None or i4.l != l):
                sh.violation('stream/%s-stream-decode-differs' % kind, 'dis(%s) accepted with l=%d but from a %s stream: %s' % (b.hex(), l, kind, 'None' if i4 is None else i4.l), dict(wit, stream=kind))
            if not expect and i4 is not None:
                sh.violation('stream/truncated-accepted/%s' % ins.m.name, 'dis(%s) has l=%d but a truncated %s stream is accepted' % (b.hex(), l, kind), dict(wit, stream=kind))
    # streams with a history: (i) two streams over one file object, used alternately, each one positioned explicitly before its decode;
    # (ii) a stream over a bytearray that is patched in place between two decodes (the second decode reads the bytes as they are now)
    try:
        other = bytes([0x90, 0xb8, 0x01, 0x02, 0x03, 0x04, 0xc3])
        fobj = io.BytesIO(b[:l] + other)
        s1 = bin_stream(fobj, 0)
        s2 = bin_stream(fobj, l + 1)
        s2.offset = l + 1
        j2 = x86mnemo.dis(s2)             # mov eax, imm32 at l+1
        s1.offset = 0
        j1 = x86mnemo.dis(s1)             # the instruction under test (the stream is told its position again: the file moved)
        s2.offset = l + 6
        j3 = x86mnemo.dis(s2)             # ret
        s1.offset = l
        j4 = x86mnemo.dis(s1)             # nop
        got = [None if j is None else (j.l, bytes(j.b)) for j in (j1, j2, j3, j4)]
        want = [(l, b[:l]), (5, other[1:6]), (1, other[6:7]), (1, other[0:1])]
    except Exception as e:
        got, want = 'raises %s' % type(e).__name__, None
    sh.evaluations += 1
    if got != want:
        sh.violation('stream/two-file-streams-interleaved', 'two streams over one file object holding %s + nop, mov, ret: decodes %r, expected %r' % (b[:l].hex(), got, want), dict(wit, stream='file-shared'))
    try:
        buf = bytearray(b'\x90' * l + b'\xcc' * 4)
        sb = bin_stream(buf, 0)
        k1 = x86mnemo.dis(sb)
        buf[0:l] = b[:l]
        sb.offset = 0
        k2 = x86mnemo.dis(sb)
        got = (None if k1 is None else k1.l, None if k2 is None else (k2.l, bytes(k2.b)))
    except Exception as e:
        got = 'raises %s' % type(e).__name__
    sh.evaluations += 1
    if got != (1, (l, b[:l])):
        sh.violation('stream/bytearray-patched-in-place', 'a stream over a bytearray that held nops and now holds %s decodes %r' % (b[:l].hex(), got), dict(wit, stream='bytearray-patched'))
    # a virtual address space of 2^32 bytes in which the instruction ends exactly at the top
    class _TopVirt(object):
        def __init__(self, data):
            self.data, self.base = data, (1 << 32) - len(data)

        def __len__(self):
            return 1 << 32

        def __call__(self, start, stop, section=None):
            return self.data[max(0, start - self.base):max(0, stop - self.base)]
    try:
        tv = _TopVirt(b[:l])
        st = bin_stream(tv, tv.base)
        i5 = x86mnemo.dis(st)
        got = None if i5 is None else (i5.l, bytes(i5.b), st.offset)
    except Exception as e:
        got = 'raises %s' % type(e).__name__
    sh.evaluations += 1
    if got != (l, b[:l], 1 << 32):
        sh.violation('stream/virt-top-of-address-space', 'dis(%s) from a 2^32-byte virtual stream, the instruction ending at 2^32: (l, raw, position) = %r' % (b[:l].hex(), got if not isinstance(got, tuple) else (got[0], got[1].hex(), got[2])), dict(wit, stream='virt-top'))
    # decode at a stream offset
    for off in (1, 7, 4096):
        pad = bytes((i * 37 + 11) & 0xff for i in range(off))
        r2 = Recorder(pad + b, off)
        try:
            i3 = x86mnemo.dis(r2)
        except Exception as e:
            sh.violation(exc_key('stream', e, sys.exc_info()[2]), 'dis at offset %d of %s raised %r' % (off, b.hex(), e), wit)
            continue
        sh.evaluations += 1
        if i3 is None:
            sh.violation('stream/offset-decode-differs', 'dis(%s) accepted but absent at stream offset %d' % (b.hex(), off), wit)
            continue
        try:
            s3 = str(i3)
        except Exception:
            s3 = None
        if i3.l != l or bytes(i3.b) != b[:l] or s3 != ref[0]:
            sh.violation('stream/offset-decode-differs', 'dis(%s) at offset %d: %r/%r vs %r/%r' % (b.hex(), off, s3, i3.l, ref[0], l), wit)
        if i3.offset != off:
            sh.violation('stream/offset-not-recorded', 'dis at offset %d recorded offset %r' % (off, i3.offset), wit)
        if r2.offset != off + l:
            sh.violation('stream/position-after-decode', 'decode at %d, l=%d, stream left at %d' % (off, l, r2.offset), wit)
    return ins


# ------------------------------------------------------------------ text side

MNEMOS = ['mov', 'add', 'push', 'jmp', 'call', 'lea', 'fadd', 'movsb', 'shl', 'imul', 'in', 'paddd', 'ret', 'xchg']
ATT_MNEMOS = ['movl', 'addb', 'pushl', 'jmp', 'call', 'leal', 'fadds', 'movsb', 'shll', 'imull', 'inb', 'paddd', 'ret', 'xchgw']
INTEL_TOKENS = ['eax', 'bx', 'cl', 'ah', 'esp', 'es', 'cs', 'cr0', 'dr7', 'st', 'st(1)', 'mm0', 'xmm1', 'si',
                'BYTE', 'WORD', 'DWORD', 'QWORD', 'PTR', 'OFFSET', 'FLAT', 'byte', 'ptr',
                '[', ']', '+', '-', '*', ',', ':', '(', ')', '@',
                '0', '1', '4', '256', '0x10', '65536', '4294967296', '-1', '2147483648', 'foo', '.L1']
ATT_TOKENS = ['%eax', '%bx', '%cl', '%ah', '%esp', '%es', '%cs', '%cr0', '%dr7', '%st', '%st(1)', '%mm0', '%xmm1', '%si', 'eax',
              '$', '%', '*', '(', ')', ',', ':', '+', '-', '@',
              '0', '1', '4', '256', '0x10', '65536', '4294967296', '-1', '$1', '$-129', '$foo', 'foo', '.L1', '4(%eax)', '(%eax,%ebx,2)', '%fs:']


def check_text(sh, line, syntax, cls=None):
    from miasmx.arch.ia32_arch import x86mnemo
    wit = {'line': line, 'syntax': syntax}
    f = x86mnemo.asm if syntax == 'intel' else x86mnemo.asm_att
    stage = 'asm' if syntax == 'intel' else 'asm_att'
    shown = line if len(line) <= 200 else '%s...(%d characters)...%s' % (line[:60], len(line), line[-30:])
    try:
        with common.alarm_guard(20):
            r = f(line)
    except common.alarm_guard.Fired:
        sh.counters['watchdog_fired'] += 1
        return
    except ValueError:
        sh.case((syntax, line), True, cls)
        sh.counters['rejected_with_ValueError'] += 1
        return
    except RecursionError as e:
        sh.case((syntax, line), True, cls)
        sh.violation('%s/RecursionError' % stage, '%s(%r) raised RecursionError' % (stage, shown), wit)
        return
    except Exception as e:
        sh.case((syntax, line), True, cls)
        sh.violation(exc_key(stage, e, sys.exc_info()[2]), '%s(%r) raised %s' % (stage, shown, repr(e)[:300]), wit)
        return
    sh.case((syntax, line), True, cls)
    if not isinstance(r, list) or any(not isinstance(c, bytes) for c in r):
        sh.violation('%s/result-not-a-list-of-bytes' % stage, '%s(%r) returned %r' % (stage, shown, r), wit)
        return
    sh.counters['accepted' if r else 'empty_candidate_list'] += 1
    if len(sh.samples) < 4 and r:
        sh.sample({'line': line, 'syntax': syntax, 'candidates': [c.hex() for c in r[:4]]})


def seed_lines():
    """Well-formed lines to mutate (token deletion/duplication/swap)."""
    intel = ['mov eax , DWORD PTR [ ebx + 4 ]', 'add BYTE PTR fs : [ eax ] , 3', 'lea ecx , [ edx + eax * 4 + 12 ]', 'push DWORD PTR gs : 20',
             'jmp [ DWORD PTR .L40 [ 0 + eax * 4 ] ]', 'fadd st , st(1)', 'movsb BYTE PTR es : [ edi ] , BYTE PTR ds : [ esi ]',
             'shld edi , ebp , 1', 'imul eax , eax , 200', 'mov ds , ax', 'mov ax , [ bx + si ]', 'mov eax , OFFSET FLAT : toto',
             'pextrw eax , xmm0 , 0', 'in al , dx', 'rep movsd', 'lock xadd DWORD PTR [ eax + 8 ] , edx', 'mov cr0 , eax', 'callf eax',
             'fstp TBYTE PTR [ ebp - 92 ]', 'cmp al , -66', 'mov WORD PTR 0 , ax', 'xor BYTE PTR AZCAER_ + 41359 , -128']
    att = ['movl 4 ( %ebx ) , %eax', 'addb $ 3 , %fs : ( %eax )', 'leal 12 ( %edx , %eax , 4 ) , %ecx', 'pushl %gs : 20', 'jmp * %eax',
           'fadd %st(1) , %st', 'movsb', 'shldl $ 1 , %ebp , %edi', 'imull $ 200 , %eax , %eax', 'movw %ax , %ds', 'movl $ toto , %eax',
           'inb %dx , %al', 'rep movsl', 'lock xaddl %edx , 8 ( %eax )', 'movl %eax , %cr0', 'fstpt -92 ( %ebp )', 'cmpb $ -66 , %al',
           'call * 4 ( %eax , %ebx , 2 )', 'ret $ 4', 'movb $ 256 , %al']
    return intel, att


def mutate(tokens, rng):
    t = list(tokens)
    k = rng.choice(('del', 'dup', 'swap', 'ins', 'rep'))
    if not t:
        return t
    i = rng.randrange(len(t))
    if k == 'del':
        del t[i]
    elif k == 'dup':
        t.insert(i, t[i])
    elif k == 'swap' and len(t) > 1:
        j = rng.randrange(len(t))
        t[i], t[j] = t[j], t[i]
    elif k == 'ins':
        t.insert(i, rng.choice(INTEL_TOKENS + ATT_TOKENS))
    else:
        t[i] = rng.choice(INTEL_TOKENS + ATT_TOKENS)
    return t


def shards(tier, seed):
    out = []
    cl = x86space.cells()
    per = 16 if tier == 'quick' else 8
    for i in range(0, len(cl), per):
        out.append(('cells', i, per))
    out.append(('prefixes',))
    out.append(('dupprefix',))
    out.append(('longforms',))
    out.append(('mode16',))
    for i in range(16 if tier == 'quick' else 128):
        out.append(('randbytes', i))
    for mi in range(len(MNEMOS)):
        for syn in ('intel', 'att'):
            out.append(('tokens', syn, mi))
    for i in range(8 if tier == 'quick' else 160):
        out.append(('mutlines', i))
    return out


def run_shard(shard, tier, seed):
    sh = common.Shard()
    kind = shard[0]
    if kind == 'cells':
        cl = x86space.cells()[shard[1]:shard[1] + shard[2]]
        for cell in cl:
            pf = [b'', b'\x66'] if tier == 'quick' else [b'', b'\x66', b'\x67', b'\xf2', b'\xf3', b'\xf0', b'\x2e', b'\x64']
            sibs = None if tier == 'quick' else x86space.SIB_QUICK + x86space.SIB_ALL64[::8]
            for b, cls in x86space.strings_for_cell(cell, tier, seed, prefixes=pf, sibs=sibs, nfill=1 if tier == 'quick' else 2):
                deep = (cls[5] == 'frand')
                ins = check_bytes(sh, b, cls='%02x%02x/p%s/mod%d' % (cell[0], cell[1], cls[1], cls[2]), deep=deep)
                if ins is not None and len(sh.samples) < 2:
                    try:
                        sh.sample({'bytes': b.hex(), 'length': ins.l, 'intel': str(ins)})
                    except Exception:
                        pass
    elif kind == 'prefixes':
        # every single prefix and the listed pairs on a reduced ModRM set, every cell
        modrms = (0x00, 0x05, 0x44, 0x84, 0xc1, 0xd8, 0xf9, 0x24)
        pf = x86space.ALL_SINGLE[2:] + x86space.PAIRS if tier == 'quick' else x86space.PAIRS + [a + b for a in x86space.ALL_SINGLE[1:] for b in x86space.PAIRS[:6]]
        for cell in x86space.cells():
            for b, cls in x86space.strings_for_cell(cell, 'quick', seed, prefixes=pf, modrms=modrms, sibs=[0x24, 0x65], nfill=1):
                check_bytes(sh, b, cls='pfx:%s' % cls[1], deep=False)
    elif kind == 'mode16':
        # the other configuration of the decoder: a 16-bit code segment
        from miasmx.arch.ia32_reg import x86_afs
        at = {'opmode': x86_afs.u16, 'admode': x86_afs.u16}
        modrms = (0x00, 0x06, 0x44, 0x84, 0xc1, 0xd8)
        for cell in x86space.cells((0, 1)):
            for b, cls in x86space.strings_for_cell(cell, 'quick', seed, prefixes=[b'', b'\x66', b'\x67', b'\xf3', b'\x2e', b'\x66\x67'], modrms=modrms, sibs=[0x24], nfill=1):
                check_bytes(sh, b, cls='m16:%02x%02x/p%s' % (cell[0], cell[1], cls[1]), attrib=at)
    elif kind == 'longforms':
        # the longest encodings (SIB + disp32 + imm32, far pointers, 0F 3A forms with immediates) behind runs of 1 to 9 prefix
        # bytes: strings of up to 24 bytes, some of them longer than the architectural 15-byte limit
        bodies = [bytes.fromhex(h) for h in ('c78424785634 12efbeadde'.replace(' ', ''), '81842478563412efbeadde', '69842478563412efbeadde', 'c7052010000078563412', '0fba6c24100711223344',
                                             'ea7856341223 00'.replace(' ', ''), '9a785634122300', '660f3a0f8424785634120511', 'f7842478563412efbeadde', 'a178563412', '6878563412', 'c8341205')]
        runs = [b'\x2e', b'\x2e\x2e', b'\x2e\x36\x3e', b'\x2e' * 4, b'\x2e' * 5, b'\x26\x2e\x36\x3e\x64', b'\x2e' * 6, b'\xf0\x2e\x2e\x2e\x2e', b'\xf3\xf3\xf3\xf3\xf3', b'\x64' * 8, b'\x67\x2e\x2e\x2e\x2e', b'\x2e' * 9,
                b'\x66\x2e\x2e\x2e\x2e', b'\x2e\x2e\x2e\x2e\x66', b'\x65\x64\x3e\x36\x2e\x26']
        for body in bodies:
            for run in runs:
                for tail in (b'', b'\x90\x90\x90', b'\xcc' * 9):
                    check_bytes(sh, run + body + tail, cls='long:%d+%d' % (len(run), len(body)), deep=(tail == b''))
    elif kind == 'dupprefix':
        # a size prefix given twice is still one prefix: "the instruction" ends where the reference decoder says it ends, and the
        # decoder may not consume bytes beyond it (for these strings the C01 comparison does not apply: superfluous prefixes are
        # outside its quantifier)
        modrms = (0x00, 0x05, 0x06, 0x44, 0x80, 0x84, 0xc1)
        pf = [b'\x67\x67', b'\x66\x66', b'\x67\x66\x67', b'\x66\x67\x66', b'\x2e\x67\x67', b'\x67\x67\x67', b'\x66\x66\x66\x66']
        items = []
        for cell in x86space.cells((0, 1)):
            for b, cls in x86space.strings_for_cell(cell, 'quick', seed, prefixes=pf, modrms=modrms, sibs=[0x24], nfill=1):
                items.append(b)
        ref = gnuref.objdump(items)
        for b, (rl, rt) in zip(items, ref):
            ins = check_bytes(sh, b, cls='dup:%s' % b[:2].hex(), deep=False)
            if ins is None or rl == 0 or '(bad)' in rt or rl > len(b):
                continue
            if ins.l > rl:
                npre = 0
                while npre < len(b) and b[npre] in x86space.PREFIX_BYTES:
                    npre += 1
                from vf import x86ref
                fam = 'MMX-SSE' if re.search(r'\b(x?mm\d)', rt) else ('mov-control-or-debug-register' if re.search(r'\b(cr|dr|db|tr)\d', rt) else x86ref.ref_mnemonic(rt))
                sh.violation('over-read/repeated-prefix/%s/%s' % (b[:npre].hex(), fam), 'dis(%s) consumes %d bytes, the instruction (%s) has %d' % (b.hex(), ins.l, rt, rl), {'bytes': b.hex()})
    elif kind == 'randbytes':
        rng = common.rng_for(seed, 'C10rb', shard[1])
        for _ in range(3000 if tier == 'quick' else 8000):
            n = rng.randint(1, 16)
            b = bytes(rng.getrandbits(8) for _ in range(n))
            if rng.random() < 0.5:
                b = rng.choice(x86space.ALL_SINGLE + x86space.PAIRS) + b
                b = b[:16]
            check_bytes(sh, b, cls='random', deep=True)
    elif kind == 'tokens':
        _, syn, mi = shard
        mn = MNEMOS[mi] if syn == 'intel' else ATT_MNEMOS[mi]
        toks = INTEL_TOKENS if syn == 'intel' else ATT_TOKENS
        check_text(sh, mn, syn, cls='tok0:%s' % syn)
        for a in toks:
            check_text(sh, '%s %s' % (mn, a), syn, cls='tok1:%s' % syn)
            for b in toks:
                check_text(sh, '%s %s %s' % (mn, a, b), syn, cls='tok2:%s' % syn)
        if tier == 'thorough':
            for a in toks:
                for b in toks:
                    for c in toks:
                        check_text(sh, '%s %s %s %s' % (mn, a, b, c), syn, cls='tok3:%s' % syn)
        if True:
            rng = common.rng_for(0, 'C10tok', syn, mi)       # fixed internal seed: see DESIGN.md 2/C10 (seed-independent key set)
            for _ in range(1500):
                k = rng.randint(3, 7)
                check_text(sh, mn + ' ' + ' '.join(rng.choice(toks) for _ in range(k)), syn, cls='tokN:%s' % syn)
    elif kind == 'mutlines':
        rng = common.rng_for(0, 'C10mut', shard[1])          # fixed internal seeds; thorough runs a superset of the quick shards
        intel, att = seed_lines()
        try:
            sys.path.insert(0, common.REPO + '/tests')
            import test_fixpoint
            intel = intel + [' '.join(re.findall(r'[A-Za-z_.$@][A-Za-z0-9_.$@()]*|0[xX][0-9a-fA-F]+|\d+|\S', l)) for l in test_fixpoint.tests]
        except Exception:
            pass
        for l in intel:
            check_text(sh, l, 'intel', cls='wellformed:intel')
        for l in att:
            check_text(sh, l, 'att', cls='wellformed:att')
        # literals of extreme length (beyond what int() converts by default: 4300 digits), decimal and hexadecimal, as immediate
        # and as displacement: whatever the lexer's own error path does, the caller sees candidates or ValueError
        import io, contextlib
        for n in (20, 100, 4300, 4301, 5000, 20000):
            for lit in ('1' * n, '9' * n, '0x' + 'f' * n, '0' * n + '7'):
                for l, syn in (('mov eax, %s' % lit, 'intel'), ('add DWORD PTR [ebx+%s], 1' % lit, 'intel'), ('push %s' % lit, 'intel'),
                               ('movl $%s, %%eax' % lit, 'att'), ('addl $1, %s(%%ebx)' % lit, 'att')):
                    with contextlib.redirect_stdout(io.StringIO()):
                        check_text(sh, l, syn, cls='long-literal:%s' % syn)
        for _ in range(1500):
            if rng.random() < 0.55:
                t = rng.choice(intel).split()
                syn = 'intel'
            else:
                t = rng.choice(att).split()
                syn = 'att'
            for _ in range(rng.randint(1, 3)):
                t = mutate(t, rng)
            sep = rng.choice((' ', ' ', '', '\t'))
            check_text(sh, (t[0] + ' ' + sep.join(t[1:])) if t else '', syn, cls='mutated:%s' % syn)
    return sh


def finalize(merged, tier, seed):
    out = {'coverage': {'watchdog_fired': int(merged.counters.get('watchdog_fired', 0))}}
    if merged.counters.get('watchdog_fired', 0):
        out['inconclusive'] = ['%d cases hit the 20 s wall watchdog' % merged.counters['watchdog_fired']]
    return out


def replay(w):
    sh = common.Shard()
    if 'bytes' in w and w.get('mode16'):
        from miasmx.arch.ia32_reg import x86_afs
        check_bytes(sh, bytes.fromhex(w['bytes']), attrib={'opmode': x86_afs.u16, 'admode': x86_afs.u16})
    elif 'bytes' in w:
        check_bytes(sh, bytes.fromhex(w['bytes']), deep=True)
    else:
        check_text(sh, w['line'], w['syntax'])
    return [(v['key'], v['detail']) for v in sh.violations]
