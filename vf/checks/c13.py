"""C13 - simplifier output is canonical: idempotent, order-insensitive, hash-seed independent.

Metamorphic monitors (two executions of the real code that must agree) plus a
cross-process monitor: the same deterministic corpus is pushed through expr_simp, the
instruction renderers, the lifter and dump_id()/dump_mem() in child processes started with
different PYTHONHASHSEED values; per-item digests must be identical.
"""
import os
import sys
import json
import time
import itertools
import subprocess
from vf import common, irsem, exprgen

PROPERTY = 'C13'
RULE = ('(i) idempotence: expr_simp of a memo-free copy of expr_simp(e) must be structurally identical; (ii) for every tree, AC variants '
        '(all permutations of the operands of each + * ^ & | node up to 4 operands, seeded samples beyond, and every binary re-association) '
        'must simplify to the identical tree and string, including near-twin operands (26 pairs of nodes differing in exactly one field: condition / either arm of a conditional, address / size / segment of a memory cell, slice bounds, one compose slot, operator / arity / one operand, identifier name) under each of the 5 operators; (iii) per-item digests of str(expr_simp(e)), Intel/AT&T renderings of a byte corpus, '
        'str of lifted semantics and dump_id()/dump_mem() after emulating instruction blocks, computed in child processes with different '
        'PYTHONHASHSEED, must be equal. A case = (law, canonical tree or item id); non-trivial = the tree contains an AC node with >=2 '
        'distinct operands (ii), the simplifier changed the tree (i), or the item produced output in every process (iii).')
RULE += ' Round 6: 19 operands carrying one, two or three symbols (sums and differences) lifted, simplified, rendered and emulated under every hash seed.'
RULE += ' Round 7: operand twins whose names differ by zero padding, digit runs or punctuation (var_8 / var_08, r2 / r10, a_b / ab).'
RULE += " Round 8: stores written with the operands of their address in both orders must simplify, as whole assignments, to one form, and that form is a fixed point."
RULE += ' Round 10: AC variants must also be equal for the library itself (==), not only in text; operands over identifiers created as registers (is_reg), a merged composition of register slices next to the plain slice; the laws again after 60 simplifier calls that raise.'
ASSUMPTIONS = ['the corpus generator is hash-seed independent (blake2b-derived RNG, sorted iteration in the harness)']

HASH_SEEDS_QUICK = [0, 1, 2, 3, 7, 42, 12345]
HASH_SEEDS_THOROUGH = HASH_SEEDS_QUICK + list(range(100, 125))

ATT_LINES = [
    'movl %eax, 8(%esi)', 'pushl %eax', 'cmpl %eax, %ebx', 'shll %cl, %eax', 'movw %cx, 10(%esi)', 'movl 9(%esi), %edx',
    'xchgl %ebx, %eax', 'addl $2, %ecx', 'subl $2, %ecx', 'adcl $2, %ecx', 'negl %ecx', 'xorl %edx, %edx', 'xaddl %edx, %ecx',
    'notl %edx', 'rorl %cl, %eax', 'roll $6, %eax', 'sbbl $-1, %ebx', 'orl %edx, %eax', 'andl %edx, %eax', 'movb %al, 3(%edi)',
    'movl %ebx, (%edi)', 'movl 4(%esp), %eax', 'popl %ebx', 'leal 4(%eax,%ebx,2), %ecx', 'movzbl 1(%esi), %eax', 'movsbl %cl, %edx',
    'incl %eax', 'decl 4(%esi)', 'testl %eax, %eax', 'sete %al', 'cmovel %ebx, %ecx', 'imull %ebx, %eax', 'shrl $3, %edx',
    'sarl $1, %eax', 'movl $0x1234, 12(%esi)', 'movw $7, 14(%esi)', 'addl %eax, 8(%esi)', 'movl %esi, %edi', 'bswap %eax',
    'cltd', 'cwtl', 'stc', 'clc', 'cld', 'lahf', 'pushl $5', 'movb $1, 9(%esi)', 'subl 8(%esi), %ebx', 'xorb %ah, %al',
]


def ac_variants(e, rng, limit=24):
    """Trees that differ from e only by the order / nesting of operands of AC operators."""
    ex, mi = exprgen.M()
    nodes = [t for t in exprgen.subterms(e) if t.__class__.__name__ == 'ExprOp' and t.op in exprgen.AC and len(t.args) >= 2]
    if not nodes:
        return []
    out = []

    def rebuild(t, target, repl):
        if t is target:
            return repl
        k = t.__class__.__name__
        if k in ('ExprInt', 'ExprId'):
            return t
        if k == 'ExprMem':
            return ex.ExprMem(rebuild(t.arg, target, repl), t.size, t.segm)
        if k == 'ExprSlice':
            return ex.ExprSlice(rebuild(t.arg, target, repl), t.start, t.stop)
        if k == 'ExprCompose':
            return ex.ExprCompose([(rebuild(a, target, repl), s, tt) for a, s, tt in t.args])
        if k == 'ExprCond':
            return ex.ExprCond(rebuild(t.cond, target, repl), rebuild(t.src1, target, repl), rebuild(t.src2, target, repl))
        if k == 'ExprOp':
            return ex.ExprOp(t.op, *[rebuild(a, target, repl) for a in t.args])
        raise ValueError(k)
    for nd in nodes:
        args = list(nd.args)
        n = len(args)
        perms = []
        if n <= 4:
            perms = list(itertools.permutations(range(n)))[1:]
        else:
            for _ in range(8):
                p = list(range(n)); rng.shuffle(p); perms.append(tuple(p))
        for p in perms:
            out.append(('perm', rebuild(e, nd, ex.ExprOp(nd.op, *[args[i] for i in p]))))
        if n >= 3:
            # re-associations: ((a op b) op c...), (a op (b op c...)), right/left nested chains
            left = args[0]
            for a in args[1:]:
                left = ex.ExprOp(nd.op, left, a)
            right = args[-1]
            for a in reversed(args[:-1]):
                right = ex.ExprOp(nd.op, a, right)
            out.append(('assoc-left', rebuild(e, nd, left)))
            out.append(('assoc-right', rebuild(e, nd, right)))
            out.append(('assoc-mid', rebuild(e, nd, ex.ExprOp(nd.op, args[0], ex.ExprOp(nd.op, *args[1:])))))
        elif n == 2 and args[0].__class__.__name__ == 'ExprOp' and args[0].op == nd.op and len(args[0].args) == 2:
            a, b = args[0].args
            out.append(('assoc-rot', rebuild(e, nd, ex.ExprOp(nd.op, a, ex.ExprOp(nd.op, b, args[1])))))
    if len(out) > limit:
        out = rng.sample(out, limit)
    return out


def simp(e):
    import miasmx.expression.expression_helper as eh
    return eh.expr_simp(exprgen.fresh_copy(e))


def check_tree(sh, e, rng):
    from vf.checks.c05 import root_skeleton
    c = exprgen.canon(e)
    if irsem.typecheck(e):
        return
    try:
        s = simp(e)
    except Exception as ex:
        sh.counters['simp_raises(C05 business)'] += 1
        return
    cs = exprgen.canon(s)
    # (i) idempotence
    try:
        s2 = simp(s)
    except Exception as ex:
        sh.violation('idempotence/%s/raises:%s' % (root_skeleton(s), type(ex).__name__), 'expr_simp(expr_simp(%s)) raised %r' % (e, ex), {'tree': c, 'law': 'idem'})
        s2 = None
    sh.case(('idem', c), nontrivial=(cs != c), cls='idem:' + root_skeleton(e))
    if s2 is not None and exprgen.canon(s2) != cs:
        # smallest sub-tree of s that is not a fixpoint
        culprit = s
        best = exprgen.count_nodes(s)
        for t in exprgen.subterms(s):
            n = exprgen.count_nodes(t)
            if n < best:
                try:
                    if exprgen.canon(simp(t)) != exprgen.canon(t):
                        culprit, best = t, n
                except Exception:
                    pass
        sh.violation('idempotence/%s' % root_skeleton(culprit), 'expr_simp(%s) = %s but simplifying that again gives %s [smallest non-fixpoint sub-tree: %s]' % (e, s, s2, culprit),
                     {'tree': c, 'law': 'idem'})
    # (ii) AC variants
    vs = ac_variants(e, rng)
    for kind, v in vs:
        cv = exprgen.canon(v)
        if cv == c:
            continue
        try:
            sv = simp(v)
        except Exception as ex:
            sh.violation('ac-order/%s/raises:%s' % (kind.split('-')[0], type(ex).__name__), 'variant %s raised %r' % (v, ex), {'tree': c, 'variant': cv, 'law': 'ac'})
            continue
        sh.case(('ac', c, cv), nontrivial=True, cls='ac:%s:%s' % (kind, root_skeleton(e)))
        try:
            lib_equal = bool(sv == s) and not (sv != s)
        except Exception:
            lib_equal = False
        if exprgen.canon(sv) != cs or str(sv) != str(s) or not lib_equal:
            # shrink: smallest sub-tree pair exhibiting the difference
            key = ac_key(e, v)
            if exprgen.canon(sv) == cs and str(sv) == str(s):
                key = 'same-text-but-unequal-for-the-library/' + root_skeleton(e)
            sh.violation('ac-order/%s/%s' % (kind.split('-')[0], key), 'expr_simp(%s) = %s but the AC variant %s simplifies to %s' % (e, s, v, sv),
                         {'tree': c, 'variant': cv, 'law': 'ac'})
    # (ii') the same comparison WITHOUT copying: the variants share their operand objects with e (as expressions built by
    # a client do); simplifying one of them must not change what the others simplify to
    if vs:
        import miasmx.expression.expression_helper as eh
        try:
            shared = [exprgen.canon(eh.expr_simp(e))] + [exprgen.canon(eh.expr_simp(v)) for kind, v in vs[:6]] + [exprgen.canon(eh.expr_simp(e))]
        except Exception as ex:
            shared = None
            sh.violation('ac-order/shared-operands/raises:%s' % type(ex).__name__, 'simplifying variants of %s that share operand objects raised %r' % (e, ex), {'tree': c, 'law': 'ac-shared'})
        if shared is not None:
            sh.case(('ac-shared', c), nontrivial=True, cls='ac-shared:' + root_skeleton(e))
            if any(x != cs for x in shared):
                sh.violation('ac-order/shared-operands/%s' % root_skeleton(e), 'variants of %s that share their operand objects simplify to %d different results (fresh copies give %s)' % (
                    e, len(set(shared)), s), {'tree': c, 'law': 'ac-shared'})
    if len(sh.samples) < 4 and vs:
        sh.sample({'tree': str(e), 'simplified': str(s), 'ac_variants_compared': len(vs), 'a_variant': str(vs[0][1])})


def ac_key(e, v):
    """Operator skeleton of the smallest AC node of e whose own variants already disagree."""
    from vf.checks.c05 import root_skeleton
    best = None
    rng = common.rng_for(0, 'ackey')
    for t in exprgen.subterms(e):
        if t.__class__.__name__ == 'ExprOp' and t.op in exprgen.AC:
            n = exprgen.count_nodes(t)
            if best is not None and n >= best[0]:
                continue
            try:
                st = exprgen.canon(simp(t))
                for kind, tv in ac_variants(t, rng, limit=30):
                    if exprgen.canon(simp(tv)) != st:
                        best = (n, t)
                        break
            except Exception:
                continue
    return root_skeleton(best[1] if best else e)


def twins(w):
    """Pairs of operands of width w that differ in exactly one field of their root node (or are identical): the
    canonical order has to tell them apart by every field, otherwise the input order survives simplification."""
    ex, mi = exprgen.M()
    I = lambda v, ww=w: exprgen.Int(v, ww)
    x, y, z = ex.ExprId('x', w), ex.ExprId('y', w), ex.ExprId('z', w)
    c, d = ex.ExprId('c', 1), ex.ExprId('d', 1)
    p = ex.ExprId('p', 32)
    W = {8: 16, 16: 32, 32: 64}[w]
    X, Y = ex.ExprId('X', W), ex.ExprId('Y', W)
    gs, ss = ex.ExprId('gs', 16), ex.ExprId('ss', 16)
    h = w // 2
    Op = ex.ExprOp
    cmp_ = lambda a, b: ex.ExprCompose([(a, 0, h), (b, h, w)])
    xs, ys, zs = ex.ExprSlice(X, 0, h), ex.ExprSlice(Y, 0, h), ex.ExprSlice(X, h, 2 * h)
    out = [
        ('cond.src2', ex.ExprCond(c, x, y), ex.ExprCond(c, x, z)), ('cond.src1', ex.ExprCond(c, x, y), ex.ExprCond(c, z, y)),
        ('cond.cond', ex.ExprCond(c, x, y), ex.ExprCond(d, x, y)), ('cond.arms', ex.ExprCond(c, x, y), ex.ExprCond(c, y, x)),
        ('cond.src2-int', ex.ExprCond(c, x, I(1)), ex.ExprCond(c, x, I(2))),
        ('mem.arg', ex.ExprMem(p, w), ex.ExprMem(Op('+', p, I(1, 32)), w)), ('mem.segm-none', ex.ExprMem(p, w), ex.ExprMem(p, w, gs)),
        ('mem.segm', ex.ExprMem(p, w, gs), ex.ExprMem(p, w, ss)),
        ('slice.start', ex.ExprSlice(X, 0, w), ex.ExprSlice(X, 1, w + 1)), ('slice.window', ex.ExprSlice(X, 0, w), ex.ExprSlice(X, w, 2 * w)),
        ('slice.arg', ex.ExprSlice(X, 0, w), ex.ExprSlice(Y, 0, w)),
        ('compose.arg1', cmp_(xs, ys), cmp_(xs, zs)), ('compose.arg0', cmp_(xs, ys), cmp_(zs, ys)), ('compose.order', cmp_(xs, ys), cmp_(ys, xs)),
        ('op.operands', Op('-', x, y), Op('-', y, x)), ('op.op', Op('<<', x, y), Op('>>', x, y)), ('op.op2', Op('>>', x, y), Op('a>>', x, y)),
        ('op.last', Op('<<', x, y), Op('<<', x, z)), ('op.first', Op('<<', x, y), Op('<<', z, y)), ('op.arity', Op('-', x), Op('-', x, y)),
        ('op.const', Op('<<', x, I(1)), Op('<<', x, I(2))), ('op.rot', Op('<<<', x, I(1)), Op('>>>', x, I(1))),
        ('id.name', x, ex.ExprId('xx', w)), ('id.case', x, ex.ExprId('X', w)),
        # names that a "natural" or normalising comparison would conflate: zero padding, digit runs, case, trailing characters
        ('id.zero-pad', ex.ExprId('var_8', w), ex.ExprId('var_08', w)), ('id.zero-pad2', ex.ExprId('loc_1', w), ex.ExprId('loc_001', w)), ('id.zero-pad3', ex.ExprId('x7', w), ex.ExprId('x007', w)),
        ('id.digits', ex.ExprId('r2', w), ex.ExprId('r10', w)), ('id.digits2', ex.ExprId('sym9', w), ex.ExprId('sym10', w)), ('id.underscore', ex.ExprId('a_b', w), ex.ExprId('ab', w)),
        ('id.suffix', ex.ExprId('arg', w), ex.ExprId('arg_', w)), ('id.dot', ex.ExprId('L.1', w), ex.ExprId('L1', w)), ('id.space', ex.ExprId('v 1', w), ex.ExprId('v1', w)),
        ('int.signed-twin', Op('*', x, I(3)), Op('*', x, I(irsem.mask(w) - 2))), ('same', ex.ExprCond(c, x, y), ex.ExprCond(c, x, y)),
        ('mem.size-via-slice', ex.ExprMem(p, w), ex.ExprSlice(ex.ExprMem(p, W), 0, w)),
    ]
    return out


def shards(tier, seed):
    n = 64 if tier == 'quick' else 1200
    return [('tmpl', w) for w in (8, 32)] + [('slicecomp', 0)] + [('twins', w) for w in (8, 16, 32)] + [('aff', 0)] + [('regs', 0), ('afterraises', 0)] + [('rand', i) for i in range(n)]


STATE_BLOCKS = [['movl $0x11223344, (%esi)', 'movw %cx, (%esi)'], ['movw $0x1234, (%esi)', 'movb %cl, (%esi)'], ['movl $0x11223344, (%esi)', 'movw %cx, 2(%esi)'],
                ['movl $0x11223344, (%esi)', 'movb %cl, 1(%esi)', 'movb %dl, 2(%esi)'], ['movl 4(%edi), %eax', 'movl %eax, (%esi)', 'movw %cx, (%esi)'],
                ['movl $0x11223344, (%esi)', 'movb %cl, (%esi)'], ['movl $0x11223344, 4(%esi)', 'movw %cx, 6(%esi)'], ['movl $0x11223344, (%esi)', 'movb $7, 1(%esi)', 'movl (%esi), %eax'],
                ['movl (%edi), %eax', 'movl %eax, (%esi)', 'movb %cl, 2(%esi)'], ['movb %bl, %ah', 'movl %eax, (%esi)', 'movw %cx, (%esi)'], ['pushl $0x3246', 'popfl'],
                ['movl $0x80001234, %eax', 'movl %eax, 8(%esi)', 'movb %dl, 9(%esi)', 'movzwl 10(%esi), %ecx'], ['pushfl', 'movb %cl, (%esp)', 'popl %eax']]


RMW_BLOCKS = [['addl $5, (%esi)', 'addl $7, (%esi)'], ['incl 4(%esi)', 'incl 4(%esi)'], ['negl (%ebx)', 'subl $2, (%ebx)'], ['movb $0x12, %al', 'movb %al, (%edi)'], ['movb $0x12, %al', 'stosb'],
              ['movl $0x10, %eax', 'addl %eax, 8(%esi)', 'addl %eax, 8(%esi)'], ['xorl %eax, %eax', 'movw %ax, 2(%esi)', 'orl $3, (%esi)']]


def check_aff(sh, rng):
    """Assignments as the lifter produces them are expressions too: the same store written with the operands of its address in
    another order simplifies to the identical assignment, and simplifying that again changes nothing."""
    ex, mi = exprgen.M()
    I = exprgen.Int
    a, b, c, v = ex.ExprId('a32', 32), ex.ExprId('b32', 32), ex.ExprId('c32', 32), ex.ExprId('v32', 32)
    addrs = [(ex.ExprOp('+', b, a), ex.ExprOp('+', a, b)), (ex.ExprOp('+', a, ex.ExprOp('-', I(4, 32))), ex.ExprOp('+', ex.ExprOp('-', I(4, 32)), a)),
             (ex.ExprOp('+', ex.ExprOp('+', a, I(4, 32)), I(4, 32)), ex.ExprOp('+', a, I(8, 32))), (ex.ExprOp('+', c, b, a), ex.ExprOp('+', ex.ExprOp('+', a, b), c)),
             (ex.ExprOp('+', a, ex.ExprOp('*', b, I(4, 32))), ex.ExprOp('+', ex.ExprOp('*', I(4, 32), b), a)), (ex.ExprOp('+', a, I(0, 32)), a)]
    srcs = [v, I(7, 32), ex.ExprOp('+', b, a), ex.ExprOp('^', v, v), ex.ExprMem(ex.ExprOp('+', b, a), 32)]
    for sz in (8, 32):
        for a1, a2 in addrs:
            for src in srcs:
                s_ = src if sz == 32 else ex.ExprSlice(src, 0, 8)
                outs = []
                for ad in (a1, a2):
                    e = ex.ExprAff(ex.ExprMem(ad, sz), s_)
                    sh.case(('aff', exprgen.canon(e)), True, cls='aff:%s' % s_.__class__.__name__)
                    try:
                        r = simp(e)
                        r2 = simp(r)
                        if exprgen.canon(r2) != exprgen.canon(r):
                            sh.violation('idempotence/ExprAff', 'expr_simp(%s) = %s but simplifying that again gives %s' % (e, r, r2), {'tree': exprgen.canon(e), 'law': 'aff'})
                        outs.append(exprgen.canon(r))
                    except Exception as exn:
                        sh.violation('aff-parts/raises:%s' % type(exn).__name__, 'expr_simp(%s) raised %r' % (e, exn), {'tree': exprgen.canon(e), 'law': 'aff'})
                if len(outs) == 2 and outs[0] != outs[1]:
                    sh.violation('ac-order/aff-destination', 'the same store written with %s and with %s simplifies to two forms' % (a1, a2), {'tree': exprgen.canon(ex.ExprAff(ex.ExprMem(a1, sz), s_)), 'law': 'aff'})


SYM_TWINS = [('b800000000', 1, 'mov eax, OFFSET FLAT:.LC2-.LC1', 'mov eax, OFFSET FLAT:.LC0-.LC1+.LC2-.LC0'), ('b800000000', 1, 'mov eax, OFFSET FLAT:.LC2-.LC1', 'mov eax, OFFSET FLAT:-.LC1+.LC2'),
             ('b800000000', 1, 'mov eax, OFFSET FLAT:foo+bar', 'mov eax, OFFSET FLAT:bar+foo'), ('b800000000', 1, 'mov eax, OFFSET FLAT:foo-bar', 'mov eax, OFFSET FLAT:zed-bar+foo-zed'),
             ('8b8300000000', 1, 'mov eax, DWORD PTR [ebx+foo-bar]', 'mov eax, DWORD PTR [ebx-bar+foo]'), ('6800000000', 0, 'push OFFSET FLAT:a-b', 'push OFFSET FLAT:c-b+a-c'),
             ('b800000000', 1, 'mov eax, OFFSET FLAT:x1+x2+x3', 'mov eax, OFFSET FLAT:x3+x1+x2'), ('0500000000', 1, 'add eax, OFFSET FLAT:sa-sb', 'add eax, OFFSET FLAT:-sb+sa')]


def check_symtwins(sh):
    """Two spellings of an operand that the parser reduces to the same symbol table lift to the same semantics."""
    import binascii
    from miasmx.arch.ia32_arch import x86mnemo
    from miasmx.arch.ia32_reg import x86_afs
    from miasmx.tools import emul_helper
    for hx, idx, t1, t2 in SYM_TWINS:
        outs = []
        for txt in (t1, t2):
            try:
                op = x86mnemo.dis(binascii.unhexlify(hx))
                prefix, name, args = x86mnemo.parse_mnemo(txt)
                sy = dict(args[idx].get(x86_afs.symb, {}))
                sy = dict((k_, v_) for k_, v_ in sy.items() if v_ != 0)
                a = dict(op.arg[idx])
                a.pop(x86_afs.imm, None)
                a[x86_afs.symb] = dict(args[idx].get(x86_afs.symb, {}))
                op.arg[idx] = a
                affs = emul_helper.get_instr_expr(op, exprgen.Int(0x1000 + op.l, 32), [])
                outs.append((sorted((str(k_), v_) for k_, v_ in sy.items()), ' ; '.join(str(simp(x)) for x in affs)))
            except Exception as exn:
                outs.append(('raises', type(exn).__name__))
        if len(outs) == 2 and outs[0][0] != 'raises' and outs[1][0] != 'raises' and outs[0][0] == outs[1][0]:
            sh.case(('symtwins', t1, t2), True, cls='symtwins')
            if outs[0][1] != outs[1][1]:
                sh.violation('symbol-table-order/lift', '%r and %r reduce to the same symbols %s but lift to %s and %s' % (t1, t2, outs[0][0], outs[0][1], outs[1][1]), {'tree': '', 'law': 'symtwins'})
        else:
            sh.counters['symtwins_not_comparable'] += 1


def check_state(sh, blk, tag, route='emul_lines'):
    """After emul_lines - and after the per-instruction entry point eval_instr - every value of the machine state (registers and
    memory cells) is a fixed point of the simplifier."""
    from miasmx.arch.ia32_arch import x86mnemo
    from miasmx.tools import emul_helper
    try:
        lines = [x86mnemo.dis(x86mnemo.asm_att(l)[0]) for l in blk]
        m = emul_helper.x86_machine()
        if route == 'emul_lines':
            emul_helper.emul_lines(m, lines)
        else:
            off = 0x1000
            for l_ in lines:
                off += l_.l
                m.eval_instr(emul_helper.get_instr_expr(l_, exprgen.Int(off, 32), []))
        items = [(k, m.pool[k]) for k in m.pool]
    except Exception:
        sh.counters['state_block_raises'] += 1
        return
    for k, v in items:
        if not hasattr(v, 'visit'):
            continue
        try:
            if irsem.typecheck(v):
                continue
            c = exprgen.canon(v)
            c2 = exprgen.canon(simp(v))
        except Exception:
            continue
        sh.case(('state', tag, exprgen.canon(k)), nontrivial=exprgen.count_nodes(v) > 1, cls='state:%s' % k.__class__.__name__)
        if c2 != c:
            from vf.checks.c05 import root_skeleton
            sh.violation('state-not-canonical/%s%s/%s' % ('' if route == 'emul_lines' else 'after-eval_instr/', k.__class__.__name__, root_skeleton(v)), 'after %s the state binds %s to %s, which the simplifier still rewrites to %s' % ('; '.join(blk), k, v, simp(v)),
                         {'tree': c, 'law': 'idem', 'block': blk})


def register_templates():
    """Operands over identifiers created as registers (is_reg=True, as the lifter's are): a merged composition of a register's
    slices next to the plain slice of the same register."""
    ex, mi = exprgen.M()
    S, Cm, Op = ex.ExprSlice, ex.ExprCompose, ex.ExprOp
    out = []
    for nm, w in (('eax', 32), ('rbx64', 64), ('cx', 16)):
        r = ex.ExprId(nm, w, is_reg=True)
        o = ex.ExprId('o_' + nm, w, is_reg=True)
        q = w // 4
        C = Cm([(S(r, 0, q), 0, q), (S(r, q, 2 * q), q, 2 * q)])
        R = S(r, 0, 2 * q)
        C4 = Cm([(S(r, 0, q), 0, q), (S(r, q, 2 * q), q, 2 * q), (S(r, 2 * q, 3 * q), 2 * q, 3 * q), (S(r, 3 * q, w), 3 * q, w)])
        Ohalf = S(o, 0, 2 * q)
        for op in exprgen.AC:
            out += [Op(op, C, R), Op(op, Op(op, C, Ohalf), R), Op(op, R, Op(op, Ohalf, C)), Op(op, C4, r), Op(op, Op(op, C4, o), r), Op(op, C, C), Op(op, r, o, C4)]
        out.append(Op('+', Op('^', C, R), Ohalf))
    return out


def run_shard(shard, tier, seed):
    sh = common.Shard()
    if shard[0] == 'afterraises':
        # the canonical form does not depend on how many earlier simplifier calls failed: 60 calls that raise (operands of
        # different widths, slices of widths the library has no constants for, wrong arities), then the laws again
        import miasmx.expression.expression_helper as eh
        ex, mi = exprgen.M()
        I = exprgen.Int
        x = ex.ExprId('x32', 32)
        bad = [lambda: ex.ExprOp('+', I(1, 8), I(1, 16)), lambda: ex.ExprOp('^', ex.ExprSlice(x, 8, 32), ex.ExprSlice(x, 8, 32)), lambda: ex.ExprOp('&', I(3, 32), I(1, 64)),
               lambda: ex.ExprOp('*', I(2, 16), I(2, 8), I(2, 8)), lambda: ex.ExprOp('|', ex.ExprSlice(I(5, 32), 3, 32), ex.ExprSlice(I(5, 32), 3, 32))]
        raised = 0
        for i in range(60):
            try:
                eh.expr_simp(bad[i % len(bad)]())
            except Exception:
                raised += 1
        sh.counters['afterraises_calls_that_raised'] += raised
        rng = common.rng_for(0, 'C13ar')
        from vf.checks.c05 import templates
        probes = register_templates()[:12] + [t for k, (fam, t) in enumerate(templates(8)) if k % 9 == 0][:60]
        a, b, c = ex.ExprId('a32', 32), ex.ExprId('b32', 32), ex.ExprId('c32', 32)
        probes += [ex.ExprOp('+', b, a), ex.ExprOp('^', ex.ExprOp('^', c, b), a), ex.ExprOp('^', a, a), ex.ExprOp('+', ex.ExprOp('+', c, I(1, 32)), ex.ExprOp('+', a, I(2, 32)))]
        for t in probes:
            check_tree(sh, t, rng)
        if raised < 32:
            sh.counters['afterraises_fewer_than_32_raised'] += 1
        return sh
    if shard[0] == 'regs':
        rng = common.rng_for(0, 'C13regs')
        for t in register_templates():
            check_tree(sh, t, rng)
        return sh
    if shard[0] == 'tmpl':
        from vf.checks.c05 import templates
        rng = common.rng_for(0, 'C13t', shard[1])
        for fam, t in templates(shard[1]):
            check_tree(sh, t, rng)
        return sh
    if shard[0] == 'slicecomp':
        # slice / compose rules (merging of adjacent slices, slices of compositions, ...): alone and as an operand of each
        # AC operator on either side (the parent re-visits reordered operands, which can hide an unfinished simplification)
        from vf.checks.c05 import slice_compose_templates
        ex, mi = exprgen.M()
        rng = common.rng_for(0, 'C13sc')
        for fam, t in slice_compose_templates():
            check_tree(sh, t, rng)
            try:
                w = irsem.width(t)
            except irsem.IllFormed:
                continue
            if w not in (8, 16, 32, 64):
                continue
            b_, a_ = ex.ExprId('b%d' % w, w), ex.ExprId('a%d' % w, w)
            for op in ('+', '^'):
                check_tree(sh, ex.ExprOp(op, b_, t), rng)
                check_tree(sh, ex.ExprOp(op, t, a_), rng)
        return sh
    if shard[0] == 'aff':
        check_aff(sh, common.rng_for(0, 'C13aff'))
        return sh
    if shard[0] == 'state':
        rng = common.rng_for(seed, 'C13state', shard[1])
        if shard[1] == 0:
            for j, blk in enumerate(STATE_BLOCKS + RMW_BLOCKS):
                check_state(sh, blk, ('fixed', j))
                check_state(sh, blk, ('fixed-ei', j), route='eval_instr')
        for j in range(10):
            blk = [rng.choice(ATT_LINES) for _ in range(rng.randint(2, 8))]
            check_state(sh, blk, (seed, shard[1], j))
            if j % 3 == 0:
                check_state(sh, blk, (seed, shard[1], j, 'ei'), route='eval_instr')
        return sh
    if shard[0] == 'twins':
        ex, mi = exprgen.M()
        rng = common.rng_for(0, 'C13w', shard[1])
        w = shard[1]
        y = ex.ExprId('y', w)
        for name, a, b in twins(w):
            for op in exprgen.AC:
                for e in (ex.ExprOp(op, a, b), ex.ExprOp(op, a, y, b), ex.ExprOp(op, ex.ExprOp(op, b, exprgen.Int(3, w)), a)):
                    check_tree(sh, e, rng)
        return sh
    rng = common.rng_for(seed, 'C13', shard[1])
    g = exprgen.Gen(rng, ops=('+', '*', '^', '&', '|'))
    for i in range(40 if tier == 'quick' else 80):
        w = rng.choice((8, 16, 32, 32, 64))
        e = g.gen(w, rng.choice((1, 2, 2, 3, 3, 4)))
        check_tree(sh, e, rng)
    return sh


# ---------------------------------------------------------------- hash-seed part (child process)

SYMBOLIC = [('b800000000', 1, 'mov eax, foo'), ('b800000000', 1, 'mov eax, foo-bar'), ('b800000000', 1, 'mov eax, foo+bar'), ('b900000000', 1, 'mov ecx, table+offset_0'),
            ('0500000000', 1, 'add eax, sym_a+sym_b'), ('6800000000', 0, 'push L1+L2'), ('8b8300000000', 1, 'mov eax, [ebx+foo+bar]'), ('8b8300000000', 1, 'mov eax, [ebx+foo-bar]'),
            ('81830000000078563412', 0, 'add dword ptr [ebx+x+y], 0x12345678'), ('8d8600000000', 1, 'lea eax, [esi+base+index]'), ('b800000000', 1, 'mov eax, zeta+alpha'),
            ('b800000000', 1, 'mov eax, a+b'), ('b800000000', 1, 'mov eax, k1+k2'), ('a100000000', 1, 'mov eax, [first+second]'), ('3d00000000', 1, 'cmp eax, lo+hi'),
            ('c7050000000001000000', 0, 'mov dword ptr [var_x+var_y], 1'), ('e800000000', 0, 'call func+delta'), ('b800000000', 1, 'mov eax, foo+bar+4'),
            ('b800000000', 1, 'mov eax, foo-foo+bar')]


def corpus_items(seed, tier):
    """Deterministic list of (item id, producer) evaluated identically in every child."""
    from miasmx.arch.ia32_arch import x86mnemo
    from miasmx.tools import emul_helper
    import miasmx.expression.expression_helper as eh
    ex, mi = exprgen.M()
    items = []
    rng = common.rng_for(seed, 'C13corpus')
    g = exprgen.Gen(rng, ops=('+', '*', '^', '&', '|'))
    n = 300 if tier == 'quick' else 3000
    for i in range(n):
        w = rng.choice((8, 16, 32, 32, 64))
        e = g.gen(w, rng.choice((2, 3, 3, 4)))
        if irsem.typecheck(e):
            continue
        items.append(('simp-str', i, e))
    from vf.checks.c05 import templates
    for w in (8, 32):
        for j, (fam, t) in enumerate(templates(w)):
            if j % 7 == 0:
                items.append(('simp-str', 't%d.%d' % (w, j), t))
    # byte corpus for renderers and lifter: all one-byte opcodes and 0F xx with a few ModRM bytes
    bs = []
    for op in range(256):
        for modrm in (0x00, 0x45, 0x84, 0xc3, 0xd8):
            bs.append(bytes([op, modrm, 0x24, 0x10, 0x20, 0x30, 0x40, 0x50, 0x60]))
            bs.append(bytes([0x0f, op, modrm, 0x24, 0x10, 0x20, 0x30, 0x40, 0x50]))
            bs.append(bytes([0x66, op, modrm, 0x24, 0x10, 0x20, 0x30, 0x40, 0x50]))
    for k, b in enumerate(bs):
        items.append(('render', k, b))
    # operands that carry symbols (what a relocation-aware client lifts): one, two and three symbols, sums and differences
    for k, (hx, idx, txt) in enumerate(SYMBOLIC):
        items.append(('symbolic', k, (hx, idx, txt)))
    # blocks for dump_id / dump_mem
    nb = 40 if tier == 'quick' else 300
    for i in range(nb):
        ln = rng.randint(3, 13)
        items.append(('dump', i, [rng.choice(ATT_LINES) for _ in range(ln)]))
    # the documented witness block
    items.append(('dump', 'w0', ['movl %eax, 8(%esi)', 'pushl %eax', 'cmpl %eax, %ebx', 'shll %cl, %eax']))
    return items


def child_main(seed, tier, out_path):
    """Runs under a given PYTHONHASHSEED; writes {item id: [digest strings]}."""
    common.setup_paths()
    common.private_tmpdir('hs%s' % os.environ.get('PYTHONHASHSEED'))
    from miasmx.arch.ia32_arch import x86mnemo
    from miasmx.tools import emul_helper
    import miasmx.expression.expression_helper as eh
    res = {}
    for kind, ident, payload in corpus_items(seed, tier):
        key = '%s:%s' % (kind, ident)
        try:
            if kind == 'simp-str':
                s = eh.expr_simp(exprgen.fresh_copy(payload))
                res[key] = ['simp-str', str(s)]
            elif kind == 'render':
                ins = x86mnemo.dis(payload)
                if ins is None:
                    continue
                out = []
                for what, fmt in (('render-intel', None), ('render-att', 'att_syntax binutils')):
                    try:
                        out += [what, ins.__str__(asm_format=fmt) if fmt else str(ins)]
                    except Exception as ex:
                        out += [what, 'raises %s' % type(ex).__name__]
                try:
                    affs = emul_helper.get_instr_expr(ins, exprgen.Int(0x1000, 32), [])
                    out += ['lift-str', ' ; '.join(str(a) for a in affs)]
                    rs = set()
                    for a in affs:
                        rs |= a.get_r(mem_read=True)
                    out += ['get_r-str', ','.join(sorted(str(x) for x in rs))]
                except Exception as ex:
                    out += ['lift-str', 'raises %s' % type(ex).__name__]
                res[key] = out
            elif kind == 'symbolic':
                import binascii
                from miasmx.arch.ia32_reg import x86_afs
                hx, idx, txt = payload
                op = x86mnemo.dis(binascii.unhexlify(hx))
                prefix, name, args = x86mnemo.parse_mnemo(txt)
                out = ['parse-str', repr(sorted((str(k_), str(v_)) for a_ in args for k_, v_ in a_.items()))]
                a = dict(op.arg[idx])
                a.pop(x86_afs.imm, None)
                a[x86_afs.symb] = dict(args[idx][x86_afs.symb])
                op.arg[idx] = a
                affs = emul_helper.get_instr_expr(op, exprgen.Int(0x1000 + op.l, 32), [])
                out += ['lift-str', ' ; '.join(str(x) for x in affs), 'lift-simp-str', ' ; '.join(str(eh.expr_simp(x)) for x in affs)]
                try:
                    out += ['render-intel', str(op)]
                except Exception as ex:
                    out += ['render-intel', 'raises %s' % type(ex).__name__]
                m = emul_helper.x86_machine()
                emul_helper.emul_lines(m, [op])
                out += ['dump_id', '\n'.join(m.dump_id()), 'dump_mem', '\n'.join(m.dump_mem())]
                res[key] = out
            elif kind == 'dump':
                lines = []
                for l in payload:
                    c = x86mnemo.asm_att(l)
                    lines.append(x86mnemo.dis(c[0]))
                m = emul_helper.x86_machine()
                emul_helper.emul_lines(m, lines)
                res[key] = ['dump_id', '\n'.join(m.dump_id()), 'dump_mem', '\n'.join(m.dump_mem()), 'block', ' ; '.join(payload)]
        except Exception as ex:
            res[key] = ['raises', '%s: %s' % (type(ex).__name__, str(ex)[:80])]
    with open(out_path, 'w') as f:
        json.dump(res, f)


def hashseed_part(tier, seed, merged):
    """Start one child per hash seed and compare item digests. Returns inconclusive reasons."""
    seeds = HASH_SEEDS_QUICK if tier == 'quick' else HASH_SEEDS_THOROUGH
    d = os.path.join(common.BUILD, 'tmp', os.environ.get('VERIF_RUNTAG', 'x') + '.hs')
    os.makedirs(d, exist_ok=True)
    procs = []
    reasons = []
    for hs in seeds:
        out = os.path.join(d, 'hs%d.json' % hs)
        env = dict(os.environ, PYTHONHASHSEED=str(hs), PYTHONDONTWRITEBYTECODE='1')
        p = subprocess.Popen([sys.executable, '-c',
                              'import sys; sys.path.insert(0, %r); from vf import common; common.setup_paths(); '
                              'from vf.checks import c13; c13.child_main(%d, %r, %r)' % (common.VERIF, seed, tier, out)],
                             env=env, cwd=common.VERIF, stdout=subprocess.PIPE, stderr=subprocess.STDOUT)
        procs.append((hs, p, out))
    results = {}
    for hs, p, out in procs:
        try:
            so, _ = p.communicate(timeout=1500 if tier == 'quick' else 3 * 3600)
        except subprocess.TimeoutExpired:
            p.kill()
            reasons.append('hash-seed child %d exceeded its watchdog' % hs)
            continue
        if p.returncode != 0 or not os.path.exists(out):
            reasons.append('hash-seed child %d failed: %s' % (hs, so.decode(errors='replace')[-1500:]))
            continue
        results[hs] = json.load(open(out))
    if len(results) < 2:
        reasons.append('fewer than two hash-seed children produced output')
        return reasons
    ref_seed = sorted(results)[0]
    ref = results[ref_seed]
    n_items = 0
    for key in sorted(ref):
        vals = ref[key]
        kind = key.split(':')[0]
        n_items += 1
        all_present = all(key in results[hs] for hs in results)
        merged.case(('hashseed', key), nontrivial=all_present and vals[0] != 'raises', cls='hashseed:' + kind)
        for hs in sorted(results):
            if hs == ref_seed:
                continue
            other = results[hs].get(key)
            if other == vals:
                continue
            # which artefact differs
            art = 'presence'
            detail = 'item missing under one seed'
            if other is not None:
                for i in range(0, min(len(vals), len(other)), 2):
                    if vals[i:i + 2] != other[i:i + 2]:
                        art = vals[i]
                        detail = 'PYTHONHASHSEED=%d: %s | PYTHONHASHSEED=%d: %s' % (ref_seed, vals[i + 1][:300], hs, other[i + 1][:300])
                        break
            merged.violation('hash-seed/%s' % art, '%s differs between processes: %s' % (key, detail),
                             {'law': 'hashseed', 'item': key, 'seeds': [ref_seed, hs], 'corpus_seed': seed, 'tier': tier})
            break
    merged.extra['hash_seeds'] = sorted(results)
    merged.extra['hashseed_items'] = n_items
    merged.samples.append({'hash-seed item': sorted(ref)[0], 'value': ref[sorted(ref)[0]][:2], 'processes': sorted(results)})
    return reasons


def main(tier, seed):
    t0 = time.time()
    sh = shards(tier, seed)
    results, errors = common.pool_run(__name__, sh, tier, seed, deadline_s=1500 if tier == 'quick' else 6 * 3600, tag=PROPERTY)
    merged = common.merge(results)
    reasons = hashseed_part(tier, seed, merged)
    cov = {'hash_seeds': merged.extra.get('hash_seeds', []), 'hashseed_items_compared': merged.extra.get('hashseed_items', 0)}
    return common.conclude(PROPERTY, tier, seed, merged, errors, RULE, ASSUMPTIONS, t0, extra_cov=cov, inconclusive_reasons=reasons)


def replay(w):
    from vf.checks.c15 import parse_canon
    sh = common.Shard()
    if w.get('law') == 'hashseed':
        m = common.Shard()
        hashseed_part(w.get('tier', 'quick'), w.get('corpus_seed', 0), m)
        return [(v['key'], v['detail']) for v in m.violations]
    e = parse_canon(w['tree'])
    check_tree(sh, e, common.rng_for(0, 'replay'))
    return [(v['key'], v['detail']) for v in sh.violations]
