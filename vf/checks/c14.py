"""C14 - fixed-width integers implement arithmetic modulo 2^n.

Reference-model monitor: every operation on miasmx.tools.modint types is replayed on
Python integers; congruence modulo 2^n, range, result type, reflected operators,
comparison and hash coherence are asserted on every evaluation.
"""
import operator
from vf import common

PROPERTY = 'C14'
RULE = ('operators + - * & | ^ << >> % ~ neg abs pow == != < <= > >= hash int on the modint classes '
        '(uint1/8/16/32/64/128, int8..int128); exhaustive 2^16 operand pairs at 8 bits for the type pairs '
        'uint8xuint8, int8xint8, uint8xint8 (a duplicate-free grid, counted while enumerating), the full '
        'boundary set {0,1,2,2^(n-1)-1,2^(n-1),2^n-2,2^n-1} (and negatives for the signed types) for every '
        'ordered class pair, against plain ints and reflected, seeded random operands elsewhere. A case = '
        '(operator, left type, left value, right type, right value); non-trivial = the operation is inside '
        'the quantifier (no division by zero, no negative shift count / exponent, % only on non-negative '
        'operands) so that an exact integer result exists and was compared.')
ASSUMPTIONS = ['Python int arithmetic is the reference', 'shift counts and exponents bounded (<= 200 / <= 70) except the dedicated boundary-count cases']

BINOPS = {
    '+': operator.add, '-': operator.sub, '*': operator.mul, '&': operator.and_, '|': operator.or_,
    '^': operator.xor, '<<': operator.lshift, '>>': operator.rshift, '%': operator.mod, '**': operator.pow,
}
CMPOPS = {'==': operator.eq, '!=': operator.ne, '<': operator.lt, '<=': operator.le, '>': operator.gt, '>=': operator.ge}
UNOPS = {'~': operator.invert, 'neg': operator.neg, 'abs': abs, 'int': int, 'hash': hash}


def classes():
    import miasmx.tools.modint as mi
    return [mi.uint1, mi.uint8, mi.uint16, mi.uint32, mi.uint64, mi.uint128,
            mi.int8, mi.int16, mi.int32, mi.int64, mi.int128]


# the specification of each type comes from its NAME (independent of the class hierarchy and attributes under test)
SPEC = dict([('uint%d' % n, (n, False)) for n in (1, 8, 16, 32, 64, 128)] + [('int%d' % n, (n, True)) for n in (8, 16, 32, 64, 128)])


def is_signed(c):
    return SPEC[c.__name__][1]


def width_of(c):
    return SPEC[c.__name__][0]


def in_range(c, v):
    n = width_of(c)
    if is_signed(c):
        return -(1 << (n - 1)) <= v < (1 << (n - 1))
    return 0 <= v < (1 << n)


def tname(c):
    return c.__name__ if isinstance(c, type) else 'int'


def pair_class(ca, cb):
    def one(c):
        if c is int:
            return 'int'
        return ('s' if is_signed(c) else 'u')
    if ca is int or cb is int:
        rel = 'int'
    elif width_of(ca) == width_of(cb):
        rel = 'same'
    elif width_of(ca) < width_of(cb):
        rel = 'narrow-wide'
    else:
        rel = 'wide-narrow'
    return '%s,%s/%s' % (one(ca), one(cb), rel)


def applicable(op, x, y):
    """Is (x op y) inside the quantifier, i.e. has an exact integer result?"""
    if op in ('<<', '>>'):
        return 0 <= y <= 200
    if op == '%':
        return y > 0 and x >= 0
    if op == '**':
        return 0 <= y <= 70
    return True


def check_binary(sh, op, ca, x, cb, y, record=True):
    """ca/cb: modint class or int. x,y: python ints (already representable)."""
    import miasmx.tools.modint as mi
    a = ca(x) if ca is not int else x
    b = cb(y) if cb is not int else y
    xa, yb = int(a), int(b)
    pc = pair_class(ca, cb)
    if op in CMPOPS:
        want = CMPOPS[op](xa, yb)
        try:
            got = CMPOPS[op](a, b)
        except Exception as e:
            sh.violation('%s/%s/raises:%s' % (pc, op, type(e).__name__), '%s(%d) %s %s(%d) raised %r' % (tname(ca), x, op, tname(cb), y, e),
                         {'op': op, 'ta': tname(ca), 'x': x, 'tb': tname(cb), 'y': y})
            return
        if got is not want and got != want:
            sh.violation('%s/%s/value' % (pc, op), '%s(%d) %s %s(%d) = %r, integers compare %r' % (tname(ca), x, op, tname(cb), y, got, want),
                         {'op': op, 'ta': tname(ca), 'x': x, 'tb': tname(cb), 'y': y})
        if op == '==' and got and want:
            if hash(a) != hash(b):
                sh.violation('%s/hash/equal-values-hash-differently' % pc, 'hash(%s(%d)) != hash(%s(%d))' % (tname(ca), x, tname(cb), y),
                             {'op': 'hash', 'ta': tname(ca), 'x': x, 'tb': tname(cb), 'y': y})
        return
    if not applicable(op, xa, yb):
        return False
    exact = BINOPS[op](xa, yb)
    try:
        got = BINOPS[op](a, b)
    except Exception as e:
        sh.violation('%s/%s/raises:%s' % (pc, op, type(e).__name__), '%s(%d) %s %s(%d) raised %r' % (tname(ca), x, op, tname(cb), y, e),
                     {'op': op, 'ta': tname(ca), 'x': x, 'tb': tname(cb), 'y': y})
        return
    wit = {'op': op, 'ta': tname(ca), 'x': x, 'tb': tname(cb), 'y': y}
    if isinstance(got, mi.moduint):
        rc = got.__class__
        n = width_of(rc)
        if (int(got) - exact) % (1 << n):
            sh.violation('%s/%s/value' % (pc, op), '%s(%d) %s %s(%d) = %r, exact %d mod 2^%d = %d' % (
                tname(ca), x, op, tname(cb), y, got, exact, n, exact % (1 << n)), wit)
        if not in_range(rc, got.arg):
            sh.violation('%s/%s/range' % (pc, op), '%s(%d) %s %s(%d) = %r outside the range of %s' % (
                tname(ca), x, op, tname(cb), y, got, rc.__name__), wit)
        # result type
        if ca is int or cb is int:
            want_c = cb if ca is int else ca
            if rc is not want_c:
                sh.violation('%s/%s/type' % (pc, op), '%s %s %s gives %s, expected the fixed-width type %s' % (
                    tname(ca), op, tname(cb), rc.__name__, want_c.__name__), wit)
        elif width_of(ca) != width_of(cb):
            wide = ca if width_of(ca) > width_of(cb) else cb
            if rc is not wide:
                sh.violation('%s/%s/type' % (pc, op), '%s %s %s gives %s, expected the wider type %s' % (
                    tname(ca), op, tname(cb), rc.__name__, wide.__name__), wit)
        else:
            if width_of(rc) != width_of(ca):
                sh.violation('%s/%s/type' % (pc, op), '%s %s %s gives %s' % (tname(ca), op, tname(cb), rc.__name__), wit)
    else:
        # plain result (documented for int ** modint): congruence can only be checked as equality
        if not isinstance(got, int) or got != exact:
            sh.violation('%s/%s/plain-result-value' % (pc, op), '%s(%d) %s %s(%d) = %r, exact %d' % (
                tname(ca), x, op, tname(cb), y, got, exact), wit)
        elif not (op == '**' and ca is int):
            sh.violation('%s/%s/type' % (pc, op), '%s %s %s gives a plain int' % (tname(ca), op, tname(cb)), wit)
    return True


def check_unary(sh, op, ca, x):
    import miasmx.tools.modint as mi
    a = ca(x)
    xa = int(a)
    wit = {'op': op, 'ta': tname(ca), 'x': x}
    pc = ('s' if is_signed(ca) else 'u')
    # constructor normalisation itself
    n = width_of(ca)
    if (xa - x) % (1 << n) or not in_range(ca, a.arg):
        sh.violation('%s/init/%s' % (pc, 'value' if (xa - x) % (1 << n) else 'range'),
                     '%s(%d) holds %d' % (tname(ca), x, a.arg), wit)
    try:
        got = UNOPS[op](a)
    except Exception as e:
        sh.violation('%s/%s/raises:%s' % (pc, op, type(e).__name__), '%s %s(%d) raised %r' % (op, tname(ca), x, e), wit)
        return
    if op == 'int':
        if got != xa or type(got) is not int:
            sh.violation('%s/int/value' % pc, 'int(%s(%d)) = %r' % (tname(ca), x, got), wit)
        return
    if op == 'hash':
        if got != hash(xa):
            sh.violation('%s/hash/differs-from-int' % pc, 'hash(%s(%d)) != hash(%d) although they compare equal' % (tname(ca), x, xa), wit)
        return
    exact = {'~': ~xa, 'neg': -xa, 'abs': abs(xa)}[op]
    if isinstance(got, mi.moduint):
        if (int(got) - exact) % (1 << width_of(got.__class__)):
            sh.violation('%s/%s/value' % (pc, op), '%s %s(%d) = %r, exact %d' % (op, tname(ca), x, got, exact), wit)
        if not in_range(got.__class__, got.arg):
            sh.violation('%s/%s/range' % (pc, op), '%s %s(%d) = %r out of range' % (op, tname(ca), x, got), wit)
        if got.__class__ is not ca:
            sh.violation('%s/%s/type' % (pc, op), '%s %s gives %s' % (op, tname(ca), got.__class__.__name__), wit)
    else:
        if (got - exact) % (1 << n):
            sh.violation('%s/%s/value' % (pc, op), '%s %s(%d) = %r, exact %d' % (op, tname(ca), x, got, exact), wit)


def bset(c):
    if c is int:
        return [0, 1, 2, 3, 7, 8, 9, 127, 128, 255, 256, 65535, 65536, 2 ** 31 - 1, 2 ** 31, 2 ** 32 - 1, 2 ** 32,
                2 ** 64 - 1, 2 ** 64, 2 ** 128 - 1, 2 ** 128, -1, -2, -128, -129, -2 ** 31, -2 ** 31 - 1, -2 ** 63, -2 ** 127]
    n = width_of(c)
    vs = {0, 1, 2, (1 << (n - 1)) - 1, 1 << (n - 1), (1 << n) - 2, (1 << n) - 1, n - 1, n, n + 1}
    vs = set(v % (1 << n) for v in vs)
    if is_signed(c):
        vs = set(v - (1 << n) if v >= (1 << (n - 1)) else v for v in vs)
    return sorted(vs)


ALL_BIN = list(BINOPS) + list(CMPOPS)
QUICK_EXH = ['+', '-', '*', '&', '|', '^', '<', '==']


def shards(tier, seed):
    out = []
    pairs = [('uint8', 'uint8'), ('int8', 'int8'), ('uint8', 'int8')]
    if tier == 'thorough':
        pairs += [('int8', 'uint8')]
    ops = QUICK_EXH if tier == 'quick' else ALL_BIN
    for ta, tb in pairs:
        for op in ops:
            for half in range(4):
                out.append(('exh8', ta, tb, op, half))
    # boundary x boundary for every ordered class pair (+ int on either side), 6 chunks
    for i in range(13):
        out.append(('boundary', i))
    out.append(('unary',))
    out.append(('ambient',))
    out.append(('bigshift',))
    nr = 16 if tier == 'quick' else 640
    for i in range(nr):
        out.append(('random', i))
    return out


def run_shard(shard, tier, seed):
    import miasmx.tools.modint as mi
    sh = common.Shard()
    kind = shard[0]
    cls = classes()
    byname = dict((c.__name__, c) for c in cls)
    if kind == 'exh8':
        _, ta, tb, op, q = shard
        ca, cb = byname[ta], byname[tb]
        ra = range(-128, 128) if is_signed(ca) else range(256)
        rb = range(-128, 128) if is_signed(cb) else range(256)
        ra = list(ra)[q * 64:(q + 1) * 64]
        n = 0
        for x in ra:
            for y in rb:
                r = check_binary(sh, op, ca, x, cb, y)
                if r is not False:
                    n += 1
        sh.evaluations += n
        sh.distinct_extra += n
        sh.classes.add('exh8:%s,%s,%s' % (ta, tb, op))
        sh.extra['exhaustive_grids'] = ['%s x %s %s (quarter %d)' % (ta, tb, op, q)]
        sx, sy = ra[1], 3
        sh.sample({'kind': 'exhaustive-8bit', 'op': op, 'types': [ta, tb], 'case': [sx, sy],
                   'result': repr(BINOPS.get(op, CMPOPS.get(op))(ca(sx), cb(sy)))}, 2)
    elif kind == 'boundary':
        i = shard[1]
        allc = cls + [int]
        todo = [(ca, cb) for ca in allc for cb in allc if not (ca is int and cb is int)]
        for j, (ca, cb) in enumerate(todo):
            if j % 13 != i:
                continue
            for op in ALL_BIN:
                for x in bset(ca):
                    if ca is int and cb is not int and op in ('<<', '**') and abs(x) > 2 ** 32:
                        pass
                    for y in bset(cb):
                        r = check_binary(sh, op, ca, x, cb, y)
                        if r is not False:
                            sh.case((op, tname(ca), x, tname(cb), y), cls='b:%s/%s' % (pair_class(ca, cb), op))
            sh.sample({'kind': 'boundary', 'types': [tname(ca), tname(cb)], 'values': [bset(ca)[:4], bset(cb)[:4]]}, 2)
    elif kind == 'ambient':
        from vf.checks.c05 import ambient_contracts
        ambient_contracts(sh, 'modint')
    elif kind == 'unary':
        for c in cls:
            vals = set(bset(c))
            rng = common.rng_for(seed, 'C14u', c.__name__)
            for _ in range(200):
                vals.add(rng.getrandbits(width_of(c) + 3) - (1 << (width_of(c) + 1)))
            if width_of(c) == 8:
                vals |= set(range(-300, 600))
            for x in sorted(vals):
                for op in UNOPS:
                    check_unary(sh, op, c, x)
                    sh.case((op, c.__name__, x), cls='u:%s/%s' % (c.__name__, op))
        sh.sample({'kind': 'unary', 'example': '~uint8(1) -> %r' % (~mi.uint8(1),)})
    elif kind == 'bigshift':
        # boundary counts of the statement (n-1, n, n+1, 2n, 4096) on every class, result still exact mod 2^n
        for c in cls:
            for x in bset(c):
                for cnt in (width_of(c) - 1, width_of(c), width_of(c) + 1, 2 * width_of(c), 255, 4096):
                    for op in ('<<', '>>'):
                        a = c(x)
                        exact = BINOPS[op](int(a), cnt)
                        try:
                            got = BINOPS[op](a, cnt)
                        except Exception as e:
                            sh.violation('%s,int/int/%s/raises:%s' % ('s' if is_signed(c) else 'u', op, type(e).__name__),
                                         '%s(%d) %s %d raised %r' % (c.__name__, x, op, cnt, e), {'op': op, 'ta': c.__name__, 'x': x, 'tb': 'int', 'y': cnt})
                            continue
                        sh.case((op, c.__name__, x, 'int', cnt), cls='bigshift:%s' % op)
                        if (int(got) - exact) % (1 << width_of(c)) or not in_range(c, got.arg) or got.__class__ is not c:
                            sh.violation('%s,int/int/%s/value' % ('s' if is_signed(c) else 'u', op),
                                         '%s(%d) %s %d = %r, exact %d' % (c.__name__, x, op, cnt, got, exact),
                                         {'op': op, 'ta': c.__name__, 'x': x, 'tb': 'int', 'y': cnt})
    elif kind == 'random':
        rng = common.rng_for(seed, 'C14r', shard[1])
        allc = cls + [int]
        n = 4000 if tier == 'quick' else 12000
        for _ in range(n):
            ca, cb = rng.choice(allc), rng.choice(allc)
            if ca is int and cb is int:
                continue
            op = rng.choice(ALL_BIN)

            def draw(c):
                if c is int:
                    return rng.getrandbits(rng.choice((3, 8, 16, 33, 64, 130))) - rng.choice((0, 0, 1 << 7, 1 << 31))
                v = rng.getrandbits(width_of(c))
                if rng.random() < 0.3:
                    v = rng.choice(bset(c))
                if is_signed(c) and v >= (1 << (width_of(c) - 1)):
                    v -= 1 << width_of(c)
                return v
            x, y = draw(ca), draw(cb)
            if op in ('<<', '>>', '**') and rng.random() < 0.8:
                y = rng.randint(0, 70)
                if cb is not int and not in_range(cb, y):
                    y = y % 2
            r = check_binary(sh, op, ca, x, cb, y)
            if r is not False:
                sh.case((op, tname(ca), x, tname(cb), y), cls='r:%s/%s' % (pair_class(ca, cb), op))
            if len(sh.samples) < 3:
                sh.sample({'kind': 'random', 'op': op, 'left': [tname(ca), x], 'right': [tname(cb), y]})
    return sh


def finalize(merged, tier, seed):
    grids = merged.extra.get('exhaustive_grids', [])
    return {'coverage': {'exhaustive': False, 'exhaustive_subspaces': sorted(set(g.split(' (')[0] for g in grids)),
                         'exhaustive_note': 'each listed 8-bit operator x type-pair grid was enumerated completely (65536 pairs)'}}


def replay(w):
    sh = common.Shard()
    import miasmx.tools.modint as mi
    byname = dict((c.__name__, c) for c in classes())
    byname['int'] = int
    if 'tb' in w:
        check_binary(sh, w['op'], byname[w['ta']], w['x'], byname[w['tb']], w['y'])
    else:
        check_unary(sh, w['op'], byname[w['ta']], w['x'])
    return [(v['key'], v['detail']) for v in sh.violations]
