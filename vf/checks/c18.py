"""C18 - PowerPC words decode unambiguously and re-encode to themselves.

Monitors on the real ppc_arch module: claim counting over tab_mn (uniqueness), an architectural
(primary, extended opcode) -> mnemonic table validated against llvm-mc at run time, and the
metamorphic fixpoints  ppc_mn(w).bin() == w  and  asm(str(ppc_mn(w))) == w.
"""
import io
import re
import sys
import struct
import contextlib
from vf import common, ppcref

PROPERTY = 'C18'
RULE = ('exhaustive grid of 64 primary opcodes x 1024 extended opcodes (bits 21-30) x Rc/LK bit, crossed with operand-field classes '
        '(rt/ra/rb in {0,1,31} and seeded random values: 8 combinations quick, 64 thorough); D-form immediates {0,1,0x7fff,0x8000,0xffff,..}; '
        'all 32 BO values x BI classes x AA/LK for the branch opcodes; seeded random words. Per word: number of classes claiming it, decode, '
        'mnemonic against the architectural table, bin() fixpoint, str(), asm(str()) fixpoint. A case = the 32-bit word; non-trivial = exactly '
        'one class claims it and it decodes (the fixpoints were evaluated).')
RULE += ' Round 9: compare families (cmp, cmpl, cmpi, cmpli, fcmpu, fcmpo, mcrf) x all 8 CR fields x distinct and equal source registers.'
RULE += ' Round 10: the previous decoded object of each class is asked for bin() and str() again after the next word of that class has been decoded (decoded objects stay valid while others are alive); a sample of the grid goes through a child interpreter started with -O, which must decode, re-encode, render and re-assemble every word exactly as the normal interpreter does.'
ASSUMPTIONS = ['the (primary, extended opcode) -> mnemonic table in vf/ppcref.py is the 32-bit PowerPC (603) assignment; every row llvm-mc 14 knows is '
               'checked against llvm-mc -mcpu=603 -show-encoding on each run (a contradicted row makes the check inconclusive)']

SIMPLIFIED = {
    'addi': ('ADDI', 'LI'), 'addis': ('ADDIS', 'LIS'),
}


def lib_base_name(m):
    try:
        n = m.name2str()
    except Exception:
        n = m.getname()
    return n


def mnemonic_matches(arch, lib, word):
    """Is the library's (possibly simplified) mnemonic the architecture's for this word?"""
    a = arch.upper()
    l = lib.upper()
    if a in ('ADDI', 'ADDIS'):
        return l in SIMPLIFIED[arch]
    if a == 'BCLR':
        return l.startswith('B') and 'LR' in l
    if a == 'BCCTR':
        return l.startswith('B') and 'CTR' in l
    if a in ('BC', 'B'):
        return l.startswith('B') and 'LR' not in l and 'CTR' not in l
    if a.endswith('.'):
        return l in (a, a[:-1])
    return l == a


BRANCH_CLASSES = ('ppc_bc', 'ppc_bctr', 'ppc_bclr', 'ppc_bcctr')


def branch_fields(cname, w):
    """Conditional branches: the text form depends on the BO class and on the condition bit within the CR field, and so do the
    known defects; keying them per (BO, BI mod 4) keeps a newly broken combination visible."""
    if cname not in BRANCH_CLASSES:
        return ''
    return '/bo=%d/cond=%d' % ((w >> 21) & 31, (w >> 16) & 3)


def branch_diff(x):
    """Which fields of a conditional branch differ after the text round trip: the BO bits individually (they select the
    text form), BI / displacement-or-extended-opcode / AA / LK as fields."""
    parts = []
    bo = [b for b in range(6, 11) if x & (1 << (31 - b))]
    if bo:
        parts.append('BO%s' % bo)
    if x & 0x001f0000:
        parts.append('BI')
    if x & 0x0000fffc:
        parts.append('BD')
    if x & 2:
        parts.append('AA')
    if x & 1:
        parts.append('LK')
    return '+'.join(parts)


def check_word(sh, w, tables, P, cls=None):
    wit = {'word': '%08x' % w}
    claims = [c for c in P.tab_mn if c.check(w)]
    arch = ppcref.arch_mnemonic(w, tables)
    if len(claims) > 1:
        sh.case(w, True, cls)
        sh.violation('ambiguous/%s' % '+'.join(sorted(c.__name__ for c in claims)), 'word %08x is claimed by %s' % (w, [c.__name__ for c in claims]), wit)
        return
    if not claims:
        sh.case(w, False, cls)
        # the decoder entry point itself must refuse the word too (whatever it decoded before: a dispatch memo keyed on
        # part of the word would accept a reserved-bit variant after its well-formed sibling)
        try:
            m = P.ppc_mn(w)
        except Exception:
            m = None
        if m is not None:
            sh.violation('decodes-word-no-class-claims/%s' % m.__class__.__name__, 'ppc_mn(0x%08x) returns a %s although no class accepts the word' % (w, m.__class__.__name__), wit)
        if arch is not None:
            sh.counters['architected_but_unclaimed(not in the statement)'] += 1
            sh.extra.setdefault('unclaimed_architected', set()).add(arch)
        return
    cname = claims[0].__name__
    try:
        m = P.ppc_mn(w)
    except Exception as e:
        sh.case(w, True, cls)
        sh.violation('decode-raises:%s/%s' % (type(e).__name__, cname), 'ppc_mn(0x%08x) raised %r (claimed by %s)' % (w, e, cname), wit)
        return
    sh.case(w, True, cls)
    try:
        lib = lib_base_name(m)
    except Exception as e:
        sh.violation('name-raises:%s/%s' % (type(e).__name__, cname), 'mnemonic of 0x%08x raised %r' % (w, e), wit)
        lib = None
    if lib is not None:
        if arch is None:
            sh.violation('claims-unarchitected-opcode/%s/%s' % (cname, lib), 'word %08x (primary %d, ext10 %d) decodes as %s but the architecture assigns nothing to this opcode' % (
                w, w >> 26, (w >> 1) & 0x3ff, lib), wit)
        elif not mnemonic_matches(arch, lib, w):
            sh.violation('mnemonic/%s/%s!=%s' % (cname, lib, arch), 'word %08x (primary %d, ext10 %d): library says %s, architecture says %s' % (
                w, w >> 26, (w >> 1) & 0x3ff, lib, arch), wit)
    try:
        b = m.bin()
        if b != w:
            sh.violation('re-encode/%s' % cname, 'ppc_mn(0x%08x).bin() = 0x%08x (differs in bits %s)' % (w, b, bits(w ^ b)), wit)
    except Exception as e:
        sh.violation('bin-raises:%s/%s' % (type(e).__name__, cname), 'bin() of 0x%08x raised %r' % (w, e), wit)
    try:
        txt = str(m)
    except Exception as e:
        sh.violation('render-raises:%s/%s' % (type(e).__name__, cname), 'str(ppc_mn(0x%08x)) raised %r' % (w, e), wit)
        return
    try:
        with contextlib.redirect_stdout(io.StringIO()):
            r = P.ppc_mn.asm(txt)
        got = [struct.unpack('>L', x)[0] for x in r]
    except Exception as e:
        msg = re.sub(r"'[^']*'", "'_'", str(e))[:30]
        sh.violation('asm-raises:%s/%s%s' % (type(e).__name__, cname, ('/%s/cond=%d' % (msg, (w >> 16) & 3)) if cname in BRANCH_CLASSES else ''),
                     'asm(%r) (from 0x%08x) raised %r' % (txt, w, e), wit)
        return
    if got != [w]:
        sh.violation('asm-differs/%s%s' % (cname, ('/' + branch_diff(w ^ got[0]) + ('(BO-ignores-condition)' if ((w >> 21) & 0x10 and (w ^ got[0]) & 0x001f0000) else '')) if (got and cname in BRANCH_CLASSES) else ''),
                     'asm(%r) = %s, expected 0x%08x (differs in bits %s)' % (txt, ['0x%08x' % g for g in got], w, bits(w ^ got[0]) if got else '-'), wit)
    if len(sh.samples) < 3:
        sh.sample({'word': '0x%08x' % w, 'class': cname, 'text': txt, 'architecture': arch})
    # decoded objects stay valid while later words are decoded: the previous object of the same class is asked again
    prev = LIVE.get(cname)
    if prev is not None and prev[1] != w:
        pm, pw, pb, ptxt = prev
        sh.counters['live_objects_requeried'] += 1
        try:
            nb, ntxt = pm.bin(), str(pm)
        except Exception as e:
            nb, ntxt = 'raises:' + type(e).__name__, None
        if (nb, ntxt) != (pb, ptxt):
            sh.violation('live-object-changed/%s' % cname, 'ppc_mn(0x%08x) gave bin()=%s str()=%r; after ppc_mn(0x%08x) was decoded the same object gives bin()=%s str()=%r' % (
                pw, '0x%08x' % pb if isinstance(pb, int) else pb, ptxt, w, '0x%08x' % nb if isinstance(nb, int) else nb, ntxt), dict(wit, previous='%08x' % pw))
    try:
        LIVE[cname] = (m, w, m.bin(), txt)
    except Exception:
        LIVE.pop(cname, None)


LIVE = {}


def run_optimised(sh, part, tier, seed):
    """Interpreter-flag differential: a sample of the words through a child interpreter started with -O must decode, re-encode,
    render and re-assemble exactly as in the normal interpreter (no part of the decoder may live in an assert)."""
    import subprocess, json, sys, os
    from miasmx.arch import ppc_arch as P
    from vf import optchild
    words = []
    for p in range(part, 64, 4):
        ws = [w for w, kind in words_for(p, 'quick', seed)]
        step = max(1, len(ws) // (60 if tier == 'quick' else 600))
        words += ws[::step]
    env = dict(os.environ, PYTHONPATH=common.REPO, PYTHONDONTWRITEBYTECODE='1', PYTHONHASHSEED='0')
    try:
        r = subprocess.run([sys.executable, '-O', os.path.join(common.VERIF, 'vf', 'optchild.py')], input=json.dumps({'ppc_words': words}).encode(),
                           env=env, stdout=subprocess.PIPE, stderr=subprocess.PIPE, timeout=1800)
        rep = json.loads(r.stdout.decode())
    except Exception as e:
        sh.counters['optimised_child_failed'] += 1
        sh.extra.setdefault('inconclusive', []).append('python -O child failed: %r' % (e,))
        return
    if rep.get('optimize', 0) < 1:
        sh.extra.setdefault('inconclusive', []).append('python -O child did not run optimised')
        return
    for w, got in zip(words, rep['results']):
        want = json.loads(json.dumps(optchild.ppc_outcome(P, w)))
        nontrivial = bool(want and want[0] and not str(want[0]).startswith('decode-raises'))
        sh.case(('O', w), nontrivial, cls='optimised/%s' % (want[0] if nontrivial else 'rejected'))
        if got != want:
            k = [i for i in range(max(len(got), len(want))) if i >= len(got) or i >= len(want) or got[i] != want[i]][0]
            sh.violation('python-O/%s/%s' % (['decode', 'bin', 'str', 'asm'][min(k, 3)], want[0] if want and isinstance(want[0], str) else 'rejected'),
                         'word 0x%08x: the normal interpreter gives %r, python -O gives %r' % (w, want, got), {'word': '%08x' % w, 'optimised': True})


def bits(x):
    """PowerPC bit numbers (0 = MSB) set in x."""
    return [i for i in range(32) if (x >> (31 - i)) & 1]


def diff_class(a, b):
    d = a ^ b
    fields = []
    for name, lo, hi in (('opcd', 0, 5), ('f6-10', 6, 10), ('f11-15', 11, 15), ('f16-20', 16, 20), ('f21-30', 21, 30), ('b31', 31, 31)):
        if any((d >> (31 - i)) & 1 for i in range(lo, hi + 1)):
            fields.append(name)
    return '+'.join(fields)


FIELD_CLASSES = (0, 1, 31)


def words_for(primary, tier, seed):
    rng = common.rng_for(seed, 'C18', primary)
    combos = [(a, b, c) for a in FIELD_CLASSES for b in FIELD_CLASSES for c in FIELD_CLASSES]
    if tier == 'quick':
        combos = [(0, 0, 0), (1, 1, 1), (31, 31, 31), (0, 1, 31), (31, 0, 1), (1, 31, 0), (3, 4, 5)]
    for ext in range(1024):
        for rc in (0, 1):
            low = (ext << 1) | rc
            cs = list(combos) + [(rng.randrange(32), rng.randrange(32), rng.randrange(32)) for _ in range(1 if tier == 'quick' else 37)]
            for rt, ra, rb in cs:
                yield (primary << 26) | (rt << 21) | (ra << 16) | (rb << 11) | low, 'grid'
    # D-form immediates
    for imm in (0, 1, 0x7fff, 0x8000, 0xffff, 0xfffc, 0x0004, 0x8004, 0x7ffc):
        for rt in (0, 1, 31, 3):
            for ra in (0, 1, 31, 4):
                yield (primary << 26) | (rt << 21) | (ra << 16) | imm, 'imm'
    # branch fields: all BO x BI classes x AA/LK (primary 16 bc, 18 b, 19 bclr/bcctr)
    if primary in (16, 18, 19):
        for bo in range(32):
            for bi in (0, 1, 2, 3, 4, 7, 31):
                for tail in ((0x10, 0x12, 0x11, 0x13, 0xfffc, 0x8000) if primary != 19 else (16 << 1, (16 << 1) | 1, 528 << 1, (528 << 1) | 1)):
                    yield (primary << 26) | (bo << 21) | (bi << 16) | tail, 'branch'
    # name-table driven fields: every special-purpose / time-base register number (10 bits, mfspr 339, mtspr 467, mftb 371),
    # every segment register (mtsr 210, mfsr 595), every CR bit of the CR-logical group
    if primary == 31:
        for ext in (339, 467, 371):
            for spr in range(1024):
                for rt in (0, 3):
                    yield (31 << 26) | (rt << 21) | (spr << 11) | (ext << 1), 'spr'
        for ext in (210, 595):
            for sr in range(16):
                yield (31 << 26) | (3 << 21) | (sr << 16) | (ext << 1), 'sr'
    # compares: every CR destination field (3 bits, the two bits below it zero) with distinct and equal source registers, register
    # (cmp 0, cmpl 32) and immediate (cmpi 11, cmpli 10) forms; CR-field moves and FP compares likewise
    if primary == 31:
        for ext in (0, 32):
            for bf in range(8):
                for ra, rb in ((3, 4), (4, 3), (0, 31), (31, 0), (7, 7), (1, 2)):
                    yield (31 << 26) | (bf << 23) | (ra << 16) | (rb << 11) | (ext << 1), 'cmp'
    if primary in (10, 11):
        for bf in range(8):
            for ra in (0, 3, 31):
                for imm in (0x18, 0xfff0, 0x7fff):
                    yield (primary << 26) | (bf << 23) | (ra << 16) | imm, 'cmp'
    if primary == 63:
        for ext in (0, 32):
            for bf in range(8):
                for ra, rb in ((1, 2), (2, 1), (0, 31)):
                    yield (63 << 26) | (bf << 23) | (ra << 16) | (rb << 11) | (ext << 1), 'cmp'
    if primary == 19:
        for bf in range(8):
            for bfa in range(8):
                yield (19 << 26) | (bf << 23) | (bfa << 18), 'cmp'
    # conditional branches: every BI (condition bit x CR field) for the BO classes with a distinct text form
    if primary in (16, 19):
        for bo in (0, 2, 4, 8, 10, 12, 16, 18, 20):
            for bi in range(32):
                for tail in ((0x10, 0xfff0) if primary == 16 else (16 << 1, 528 << 1)):
                    yield (primary << 26) | (bo << 21) | (bi << 16) | tail, 'branch-bi'
    for _ in range(2000 if tier == 'quick' else 20000):
        yield (primary << 26) | rng.getrandbits(26), 'random'


def shards(tier, seed):
    return [('p', p) for p in range(64)] + [('optimised', p) for p in range(4)]


def run_shard(shard, tier, seed):
    from miasmx.arch import ppc_arch as P
    sh = common.Shard()
    if shard[0] == 'optimised':
        run_optimised(sh, shard[1], tier, seed)
        return sh
    tables = ppcref.lookup_tables()
    p = shard[1]
    for w, kind in words_for(p, tier, seed):
        check_word(sh, w, tables, P, cls='%d/%s' % (p, kind) if kind != 'grid' else '%d/ext%d' % (p, (w >> 1) & 0x3ff))
    return sh


def finalize(merged, tier, seed):
    ok, unknown, bad = ppcref.validate_with_llvm()
    out = {'coverage': {'exhaustive': False, 'exhaustive_subspace': '64 primary x 1024 extended opcodes x Rc (with the listed operand-field classes)',
                        'table_rows_validated_by_llvm_mc': len(ok), 'table_rows_unknown_to_llvm_mc': unknown,
                        'architected_opcodes_no_class_claims': sorted(merged.extra.get('unclaimed_architected', []))}}
    if bad:
        out['inconclusive'] = ['architectural table contradicted by llvm-mc: %s' % bad]
    if merged.extra.get('inconclusive'):
        out.setdefault('inconclusive', []).extend(merged.extra['inconclusive'])
    return out


def replay(w):
    from miasmx.arch import ppc_arch as P
    sh = common.Shard()
    if w.get('optimised'):
        for part in range(4):
            run_optimised(sh, part, 'quick', 0)
        return [(v['key'], v['detail']) for v in sh.violations if v['witness'].get('word') == w['word']]
    if w.get('previous'):
        check_word(sh, int(w['previous'], 16), ppcref.lookup_tables(), P)
    check_word(sh, int(w['word'], 16), ppcref.lookup_tables(), P)
    return [(v['key'], v['detail']) for v in sh.violations]
