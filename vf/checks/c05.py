"""C05 - expression simplification preserves meaning (and width) and terminates.

Reference-model monitor: expr_simp(e) is evaluated next to e by the independent interpreter
(irsem) on boundary and random valuations (all 2^16 valuations for the two-variable 8-bit
instances of the rule templates in the thorough tier). A call counter on _expr_simp bounds
progress (bounded termination); any exception on a well-typed tree is a violation.
"""
import itertools
from vf import common, irsem, exprgen

PROPERTY = 'C05'
RULE = ('(a) rule-directed templates: one family per rewrite rule of _expr_simp (flattening, constant folding of every operator, '
        'neutral/absorbing elements on either side, x^x, x+(-x), --x, -(a+b), a-b, rotate merging, rotate by width, (A&mask)>>s, print-collision pairs (same text and outer width, different inner widths, simplified one after the other in one process), an operator-pair grid (x o2 m) o1 s / s o1 (x o2 m) for all 11x11 pairs of binary operators x boundary constants, '
        '== folding, (A|c)==0, parity, slice of int/slice/compose/mem, compose merging, cond rules) instantiated at widths '
        '1/8/16/32/64 with boundary constants and both operand orders; (b) seeded random well-typed trees over all seven node '
        'kinds, depth<=4; (c) the lifted semantics of a fixed list of integer-core instructions. Each tree is simplified from a '
        'fresh memo-free copy; widths and values are compared on 10 valuations (boundary + random), and on all 65536 valuations for '
        '8-bit two-variable templates in the thorough tier (512 in quick). A case = canonical input tree; non-trivial = the '
        'simplified tree differs structurally from the input (some rule fired).')
RULE += ' Round 7: sibling terms identical except for nested constants that agree modulo 2^61-1, in the low half, or in all bits but the top one.'
RULE += ' Round 8: mask-then-shift and shift-then-mask with every mask 0..255 x count 0..8 (8 bits) and masks around powers of two x counts 0..13, 31, 32 (32 bits); compositions in which two slices of one source that are consecutive in the source are separated by another piece; compositions with the same first component and a different later one under each operator.'
RULE += " Round 9: a register and a symbol of the same name and width are two identifiers (as the library's own equality has it): templates that put both under one operator, in two addresses, in adjacent slices; the random valuations give them different values."
RULE += ' Round 10: trees built with shared sub-term objects (identical sub-terms are one object, as user code and the lifter build them) are simplified, simplified again as the same object, and their parts simplified afterwards - every result must have the value of the tree as given (templates in which a slice sits in a mergeable composition and elsewhere in the tree, the slice/compose templates, random trees); shifts and rotates whose constant count is 8 bits wide under a 16/32/64-bit value (as lifted for cl and imm8 counts), counts 0,1,7,8,9,w-1,w,w+1,255 over masked, or-ed, constant operands.'
ASSUMPTIONS = ['irsem is the meaning of the IR (self-test at setup)', 'termination is decided as bounded progress: at most 2000+400*nodes calls of _expr_simp per top-level call']

_counter = {'n': 0, 'limit': 0}
_installed = {}


def install_monitor():
    """Count _expr_simp invocations; exceeding the per-call budget raises StepBound."""
    import miasmx.expression.expression_helper as eh
    if _installed.get('done'):
        return eh
    orig = eh._expr_simp

    def counted(e):
        _counter['n'] += 1
        if _counter['limit'] and _counter['n'] > _counter['limit']:
            raise common.StepBound('more than %d rewrite steps' % _counter['limit'])
        return orig(e)
    eh._expr_simp = counted
    _installed['done'] = True
    return eh


def simp_monitored(e):
    eh = install_monitor()
    _counter['n'] = 0
    _counter['limit'] = 2000 + 400 * exprgen.count_nodes(e)
    try:
        return eh.expr_simp(e), _counter['n']
    finally:
        _counter['limit'] = 0


def valuations(e, seedtag, n_random=6):
    names = sorted(irsem.free_names(e))
    envs = []
    for kind in ('zero', 'ones', 'sign', 'one'):
        ids = {}
        for nm, sz in names:
            ids[nm] = {'zero': 0, 'ones': irsem.mask(sz), 'sign': 1 << (sz - 1), 'one': 1}[kind]
        envs.append(irsem.Env(seed=(seedtag, kind), ids=ids, segmented=True))
    for i in range(n_random):
        envs.append(irsem.Env(seed=(seedtag, i), segmented=True))
    for env in envs[4:]:
        env.split_reg_sym = True        # a register and a symbol of one name are two identifiers (the boundary valuations give both the same value)
    return envs


def compare(e, s, envs):
    """Returns None or (kind, detail)."""
    try:
        we = irsem.width(e)
    except irsem.IllFormed:
        return ('input-ill-formed', '')
    if irsem.typecheck(e):
        return ('input-ill-formed', '')
    try:
        ws = irsem.width(s)
    except irsem.IllFormed as ex:
        return ('ill-formed', 'result %s: %r' % (s, ex))
    if we != ws:
        return ('width', 'input width %d, result width %d' % (we, ws))
    for env in envs:
        try:
            ve = irsem.evaluate(e, env)
        except (irsem.Undefined, irsem.Uninterpreted):
            continue
        except irsem.IllFormed:
            return ('input-ill-formed', '')
        try:
            vs = irsem.evaluate(s, env)
        except (irsem.Undefined, irsem.Uninterpreted):
            continue
        except irsem.IllFormed as ex:
            return ('ill-formed', 'result %s: %r' % (s, ex))
        if ve != vs:
            ids = dict((nm, env.id_value(nm, sz)) for nm, sz in sorted(irsem.free_names(e)))
            return ('value', 'under %s: input = 0x%x, simplified = 0x%x' % (ids, ve, vs))
    return None


def root_skeleton(t):
    """Coarse mechanism class of a tree: root kind/operator and the class of each child."""
    def child(c):
        k = c.__class__.__name__
        if k == 'ExprInt':
            v = int(c.arg) & irsem.mask(c.arg.size)
            if v == 0:
                return 'Int0'
            return 'Int'
        if k == 'ExprOp':
            return 'Op' + c.op
        if k in ('ExprSlice', 'ExprCompose', 'ExprCond', 'ExprMem'):
            return k[4:]
        return 'x'
    k = t.__class__.__name__
    if k == 'ExprOp':
        kids = [child(a) for a in t.args]
        if t.op in exprgen.AC:
            kids = sorted(set(kids))
        return 'Op%s(%s)' % (t.op, ','.join(kids))
    if k == 'ExprSlice':
        return 'Slice(%s)' % child(t.arg)
    if k == 'ExprCompose':
        return 'Compose(%s)' % ','.join(sorted(set(child(a[0]) for a in t.args)))
    if k == 'ExprCond':
        return 'Cond(%s,..)' % child(t.cond)
    if k == 'ExprMem':
        return 'Mem'
    return k[4:]


def shrink(e, seedtag):
    """Smallest sub-expression whose own simplification already fails (value/width/exception)."""
    best = None
    seen = set()
    for t in exprgen.subterms(e):
        c = exprgen.canon(t)
        if c in seen:
            continue
        seen.add(c)
        n = exprgen.count_nodes(t)
        if best is not None and n >= best[0]:
            continue
        r = run_one(exprgen.fresh_copy(t), seedtag)
        if r is not None and r[0] != 'input-ill-formed':
            best = (n, t, r)
    return best


def run_one(e, seedtag, envs=None):
    """Simplify a fresh tree and compare; returns None or (kind, detail)."""
    inp = exprgen.fresh_copy(e)
    try:
        s, steps = simp_monitored(inp)
    except common.StepBound as ex:
        return ('step-bound', str(ex))
    except RecursionError:
        return ('exception:RecursionError', '')
    except Exception as ex:
        return ('exception:%s' % type(ex).__name__, repr(ex)[:200])
    return compare(e, s, envs or valuations(e, seedtag))


def check_tree(sh, e, seedtag, origin, exhaustive8=0):
    c = exprgen.canon(e)
    inp = exprgen.fresh_copy(e)
    err = None
    s = None
    try:
        s, steps = simp_monitored(inp)
        sh.counters['rewrite_steps'] += steps
        sh.extra.setdefault('max_steps', 0)
        sh.extra['max_steps'] = max(sh.extra['max_steps'], steps)
    except common.StepBound as ex:
        err = ('step-bound', str(ex))
    except RecursionError:
        err = ('exception:RecursionError', '')
    except Exception as ex:
        err = ('exception:%s' % type(ex).__name__, repr(ex)[:200])
    fired = s is not None and exprgen.canon(s) != c
    sh.case(c, nontrivial=fired or err is not None, cls='%s:%s' % (origin, root_skeleton(e)))
    if err is None:
        envs = valuations(e, seedtag)
        err = compare(e, s, envs)
        if err is None and exhaustive8:
            names = sorted(irsem.free_names(e))
            if 1 <= len(names) <= 2 and all(sz == 8 for nm, sz in names):
                err = exhaustive_compare(sh, e, s, names, exhaustive8, seedtag)
    if len(sh.samples) < 5 and fired:
        sh.sample({'input': str(e), 'simplified': str(s), 'origin': origin})
    if err is None or err[0] == 'input-ill-formed':
        if err is not None:
            sh.counters['input_ill_formed_skipped'] += 1
        return
    # mechanism key from the minimal failing sub-tree
    m = shrink(e, seedtag)
    if m is not None:
        t, r = m[1], m[2]
    else:
        t, r = e, err
    key = '%s/%s' % (root_skeleton(t), r[0])
    sh.violation(key, 'expr_simp(%s) = %s : %s [minimal failing sub-tree %s : %s]' % (e, s, err[1], t, r[1]),
                 {'tree': c, 'minimal': exprgen.canon(t)})


def exhaustive_compare(sh, e, s, names, n, seedtag):
    """All (or n sampled) valuations of one or two 8-bit variables."""
    env = irsem.Env(seed=(seedtag, 'exh'), segmented=True)
    total = 256 ** len(names)
    if n >= total:
        it = itertools.product(range(256), repeat=len(names))
        sh.counters['exhaustive_8bit_templates'] += 1
    else:
        rng = common.rng_for(0, 'C05exh', exprgen.canon(e))
        it = (tuple(rng.randrange(256) for _ in names) for _ in range(n))
    cnt = 0
    for vals in it:
        for (nm, sz), v in zip(names, vals):
            env.ids[nm] = v
        cnt += 1
        try:
            ve = irsem.evaluate(e, env)
            vs = irsem.evaluate(s, env)
        except (irsem.Undefined, irsem.Uninterpreted):
            continue
        except irsem.IllFormed as ex:
            return ('ill-formed', repr(ex))
        if ve != vs:
            sh.counters['valuations_compared'] += cnt
            return ('value', 'under %s: input = 0x%x, simplified = 0x%x' % (dict((nm, env.ids[nm]) for nm, _ in names), ve, vs))
    sh.counters['valuations_compared'] += cnt
    return None


# ------------------------------------------------------------------ templates

def consts_for(w):
    vs = [0, 1, 2, 3, w - 1, w, w + 1, irsem.mask(w), 1 << (w - 1), (1 << (w - 1)) - 1, 0x10, 0x0f, 0x11, 7, 8, 9]
    out = []
    for v in vs:
        v &= irsem.mask(w)
        if v not in out:
            out.append(v)
    return out


def templates(w):
    """Yields (family, tree) for width w."""
    ex, mi = exprgen.M()
    I = lambda v: exprgen.Int(v, w)
    Op = ex.ExprOp
    x, y, z = ex.ExprId('x%d' % w, w), ex.ExprId('y%d' % w, w), ex.ExprId('z%d' % w, w)
    C = consts_for(w)
    few = [0, 1, 3, irsem.mask(w), 1 << (w - 1)] if w > 1 else [0, 1]
    few = sorted(set(v & irsem.mask(w) for v in few))
    # 1 flattening
    for op in exprgen.AC:
        yield 'flatten', Op(op, Op(op, x, y), I(3))
        yield 'flatten', Op(op, x, Op(op, y, I(3)))
        yield 'flatten', Op(op, Op(op, x, I(5)), Op(op, I(3), y))
        yield 'flatten', Op(op, Op(op, x, y), x)
        for op2 in exprgen.AC:
            if op2 != op:
                yield 'flatten-mixed', Op(op, Op(op2, x, y), I(3))
                yield 'flatten-mixed', Op(op, I(3), Op(op2, y, I(1)), x)
    # 2 constant folding
    for op in ('+', '*', '^', '&', '|', '<<', '>>', 'a>>', '<<<', '>>>', '==', '-'):
        for a in C:
            for b in C:
                yield 'fold:' + op, Op(op, I(a), I(b))
    for op in exprgen.AC:
        for a, b, c in itertools.product(few, repeat=3):
            yield 'fold3:' + op, Op(op, I(a), I(b), I(c))
            yield 'fold3x:' + op, Op(op, I(a), x, I(c))
    for a in C:
        yield 'fold:neg', Op('-', I(a))
        yield 'fold:parity', Op('parity', I(a))
    # 3 neutral / absorbing elements, either side
    for op in ('+', '-', '|', '^', '<<', '>>', 'a>>', '<<<', '>>>', '&', '*'):
        for c in (0, 1, irsem.mask(w), w & irsem.mask(w)):
            yield 'neutral:' + op, Op(op, x, I(c))
            yield 'neutral-left:' + op, Op(op, I(c), x)
            yield 'neutral:' + op, Op(op, Op('+', x, y), I(c))
            yield 'neutral-left:' + op, Op(op, I(c), Op('+', x, y))
    # 4 x op x
    for op in ('^', '|', '&', '+', '*'):
        yield 'idem:' + op, Op(op, x, x)
        yield 'idem:' + op, Op(op, x, y, x)
        yield 'idem:' + op, Op(op, x, x, x)
        yield 'idem:' + op, Op(op, Op('-', x), x)
        yield 'idem:' + op, Op(op, x, Op('-', x))
        yield 'idem:' + op, Op(op, x, Op('-', x), y)
        yield 'idem:' + op, Op(op, Op('-', x), y, x, I(3))
        yield 'idem:' + op, Op(op, Op('-', x), Op('-', x))
    # 5 negation
    yield 'neg', Op('-', Op('-', x))
    yield 'neg', Op('-', Op('-', Op('-', x)))
    yield 'neg', Op('-', Op('+', x, y))
    yield 'neg', Op('-', Op('+', x, I(3), y))
    yield 'neg', Op('-', x, y)
    yield 'neg', Op('-', x, I(3))
    yield 'neg', Op('-', I(3), x)
    yield 'neg', Op('-', Op('+', x, y), Op('+', x, I(1)))
    yield 'neg', Op('-', Op('-', x, y))
    yield 'neg', Op('-', x, Op('-', y))
    yield 'neg', Op('-', Op('*', x, y))
    # 6 rotates
    if w > 1:
        for o1 in ('<<<', '>>>'):
            yield 'rot-width', Op(o1, x, I(w))
            yield 'rot-width', Op(o1, x, I((2 * w) & irsem.mask(w)))
            for o2 in ('<<<', '>>>'):
                for a in (0, 1, 3, w - 1, w, irsem.mask(w), 1 << (w - 1)):
                    for b in (0, 1, 5, w - 1, irsem.mask(w)):
                        yield 'rot-merge', Op(o2, Op(o1, x, I(a)), I(b))
                yield 'rot-merge-var', Op(o2, Op(o1, x, y), I(3))
                yield 'rot-merge-var', Op(o2, Op(o1, x, I(3)), y)
                yield 'rot-merge-var', Op(o2, Op(o1, x, y), y)
        # 7 (A & mask) >> s
        for s in (0, 1, 3, 4, w - 1):
            for m in (0, (1 << s) - 1, 1 << s, (1 << s) + 1, (1 << s) | 1, irsem.mask(w), (2 << s) & irsem.mask(w)):
                m &= irsem.mask(w)
                yield 'mask-shift', Op('>>', Op('&', x, I(m)), I(s))
                yield 'mask-shift', Op('>>', Op('&', I(m), x), I(s))
                yield 'mask-shift', Op('>>', Op('&', x, y, I(m)), I(s))
        yield 'mask-shift', Op('>>', Op('&', x, y), I(3))
        for s in (w, w + 1, irsem.mask(w), 1 << (w - 1)):
            for m in (0, 1, 0x3f, irsem.mask(w)):
                yield 'mask-shift-big', Op('>>', Op('&', x, I(m & irsem.mask(w))), I(s & irsem.mask(w)))
    # 7b operator-pair grid: (x o2 m) o1 s and s o1 (x o2 m) for every pair of binary operators and boundary constants
    # (black-box counterpart of the rule templates: a rule added for another operator pair is reached too)
    K = sorted(set(v & irsem.mask(w) for v in (0, 1, w - 1, w, irsem.mask(w), 1 << (w - 1))))
    BIN = ('+', '-', '*', '^', '&', '|', '<<', '>>', 'a>>', '<<<', '>>>')
    for o1 in BIN:
        for o2 in BIN:
            for m in K:
                for s_ in K:
                    yield 'pair:%s:%s' % (o1, o2), Op(o1, Op(o2, x, I(m)), I(s_))
                    yield 'pair-left:%s:%s' % (o1, o2), Op(o1, I(s_), Op(o2, x, I(m)))
    # 7c operands that share an inner operator and whose argument lists are prefix-related (a structural equality that
    # stops at the shorter list would make the x op x rules fire on different operands)
    for inner in exprgen.AC:
        A, B, C3 = Op(inner, x, y), Op(inner, x, y, z), Op(inner, Op(inner, x, y), z)
        for outer in ('^', '-', '|', '&', '+', '*'):
            if outer == inner:
                continue
            yield 'prefix-args', Op(outer, A, B)
            yield 'prefix-args', Op(outer, B, A)
            yield 'prefix-args', Op(outer, A, C3)
            if outer in ('+',):
                yield 'prefix-args', Op('+', A, Op('-', B))
                yield 'prefix-args', Op('+', Op('-', B), A)
        yield 'prefix-args', ex.ExprCond(Op('^', A, B), x, y)
        yield 'prefix-args', Op('==', A, B)
    # 7d operands that differ only in a field that does not show in their width: conditionals whose conditions are slices of
    # the same term with the same start and another stop (or the same stop and another start), identifiers of another size
    if w >= 8:
        Xw = ex.ExprId('X%d' % (2 * w if w < 64 else 64), 2 * w if w < 64 else 64)
        for (s1, t1), (s2, t2) in (((0, 1), (0, 8)), ((0, 8), (0, w)), ((0, 8), (1, 8)), ((1, 2), (0, 2))):
            c1, c2 = ex.ExprCond(ex.ExprSlice(Xw, s1, t1), x, y), ex.ExprCond(ex.ExprSlice(Xw, s2, t2), x, y)
            for outer in ('^', '-', '|', '&', '+'):
                yield 'cond-twins', Op(outer, c1, c2)
                yield 'cond-twins', Op(outer, c2, c1)
            yield 'cond-twins', Op('+', c1, Op('-', c2))
            yield 'cond-twins', Op('==', c1, c2)
        n8, n1 = ex.ExprId('n', 8), ex.ExprId('n', 1)
        yield 'cond-twins', Op('^', ex.ExprCond(n8, x, y), ex.ExprCond(n1, x, y))
    # 7e sibling compositions with identical slot bounds whose first slot holds terms of DIFFERENT node kinds (a structural
    # equality that answers "equal" across kinds lets the x op x rules fire)
    if w == 16:
        a8, b8, d8 = ex.ExprId('a8', 8), ex.ExprId('b8', 8), ex.ExprId('d8', 8)
        kinds = [ex.ExprCond(ex.ExprId('zf', 1), a8, b8), Op('+', a8, b8), ex.ExprSlice(ex.ExprId('X32', 32), 0, 8), ex.ExprMem(ex.ExprId('p32', 32), 8),
                 exprgen.Int(5, 8), a8, Op('-', a8)]
        for i_, t1 in enumerate(kinds):
            for j_, t2 in enumerate(kinds):
                if i_ == j_:
                    continue
                c1 = ex.ExprCompose([(t1, 0, 8), (d8, 8, 16)])
                c2 = ex.ExprCompose([(t2, 0, 8), (d8, 8, 16)])
                for outer in ('^', '-', '|', '&'):
                    yield 'compose-twins', Op(outer, c1, c2)
                yield 'compose-twins', Op('+', c1, Op('-', c2))
    # 7f sibling terms identical except for a nested constant, the two constants chosen to look alike to anything that digests
    # them: the same residue modulo 2^61-1 (Python's integer hash), the same low half, the same bits but the top one
    P61 = (1 << 61) - 1
    pairs = [(1, 1 ^ (1 << (w - 1))), (0x7f & irsem.mask(w), (0x7f & irsem.mask(w)) ^ (1 << (w - 1)))]
    if w == 64:
        pairs += [(1, 1 << 61), (0x10, 0x10 + P61), (5, 5 + 3 * P61), (0x1234, 0x1234 + (1 << 32)), (0, P61)]
    if w == 32:
        pairs += [(0x1234, 0x1234 + (1 << 16)), (3, 3 + (1 << 31) - 1)]
    for c1, c2 in pairs:
        t1, t2 = Op('+', x, I(c1)), Op('+', x, I(c2))
        for outer in ('^', '-', '|', '&', '+'):
            yield 'const-twins', Op(outer, t1, t2)
        yield 'const-twins', Op('+', t1, Op('-', t2))
        yield 'const-twins', Op('==', t1, t2)
        yield 'const-twins', Op('^', ex.ExprCond(x, I(c1), y), ex.ExprCond(x, I(c2), y))
        yield 'const-twins', Op('^', Op('^', x, I(c1)), Op('^', y, I(c2)))
    # 7h a register and an assembler symbol of the same name and width are different identifiers (is_reg): the x op x rules
    # must not fire across them
    xr, xs = ex.ExprId('r%dx' % w, w, is_reg=True), ex.ExprId('r%dx' % w, w)
    for outer in ('^', '-', '|', '&', '+'):
        yield 'reg-symbol-twins', Op(outer, xr, xs)
        yield 'reg-symbol-twins', Op(outer, xs, xr)
        yield 'reg-symbol-twins', Op(outer, Op('+', xr, I(4 & irsem.mask(w))), xs)
    yield 'reg-symbol-twins', Op('+', xr, Op('-', xs))
    yield 'reg-symbol-twins', Op('==', xr, xs)
    yield 'reg-symbol-twins', ex.ExprCond(Op('^', xr, xs), y, z)
    if w == 32:
        yield 'reg-symbol-twins', Op('^', ex.ExprMem(xr, 8), ex.ExprMem(xs, 8))
        yield 'reg-symbol-twins', ex.ExprCompose([(ex.ExprSlice(xr, 0, 8), 0, 8), (ex.ExprSlice(xs, 8, 16), 8, 16)])
        yield 'reg-symbol-twins', ex.ExprCompose([(ex.ExprSlice(xr, 0, 16), 0, 16), (ex.ExprSlice(xs, 16, 32), 16, 32)])
    # 7g mask-then-shift and shift-then-mask with every small mask and count (rules that compare the mask with a power of two
    # of the count have exactly one or two pairs on which a slip shows)
    if w in (8, 32):
        masks = range(256) if w == 8 else sorted(set([0, 1, 2, 3] + [(1 << k) + d for k in range(2, 14) for d in (-1, 0, 1)]))
        counts = range(0, 9) if w == 8 else list(range(0, 14)) + [31, 32]
        for m in masks:
            for c in counts:
                yield 'mask-shift-grid', Op('>>', Op('&', x, I(m)), I(c))
                if m % 3 == 0:
                    yield 'mask-shift-grid', Op('<<', Op('&', x, I(m)), I(c))
                    yield 'mask-shift-grid', Op('&', Op('>>', x, I(c)), I(m))
    # 8 ==
    for c in few:
        yield 'eq', Op('==', Op('|', x, I(c)), I(0))
        yield 'eq', Op('==', Op('|', I(c), x), I(0))
        yield 'eq', Op('==', Op('|', x, I(c)), I(1))
        yield 'eq', Op('==', I(0), Op('|', x, I(c)))
        yield 'eq', Op('==', Op('|', x, y, I(c)), I(0))
        yield 'eq', Op('==', x, I(c))
    yield 'eq', Op('==', x, x)
    yield 'eq', Op('==', Op('|', x, y), I(0))
    # 9 parity
    if w >= 8:
        yield 'parity', Op('parity', x)
        yield 'parity', Op('parity', Op('+', x, I(0)))
    # 11b memory cells (with and without a segment selector) whose address is rewritten by the simplifier
    if w == 32:
        gs = ex.ExprId('gs', 16)
        for segm in (None, gs, ex.ExprOp('+', gs, exprgen.Int(0, 16))):
            for sz in (8, 16, 32):
                for addr in (Op('+', x, I(0)), Op('+', Op('+', x, I(4)), I(4)), Op('-', Op('+', x, y), y), Op('<<', x, I(0)), Op('+', x, y), x,
                             Op('^', x, x), Op('|', x, x)):
                    m = ex.ExprMem(addr, sz, segm)
                    yield 'segmem', m
                    yield 'segmem', Op('^', ex.ExprMem(addr, sz, segm), ex.ExprMem(x, sz)) if sz == 32 else ex.ExprCompose([(m, 0, sz), (exprgen.Int(0, 32 - sz if 32 - sz in (8, 16) else 8)[0:32 - sz] if False else ex.ExprSlice(y, 0, 32 - sz), sz, 32)])
                    if sz > 8:
                        yield 'segmem', ex.ExprSlice(m, 0, 8)
    # 12 cond
    for c in few:
        yield 'cond', ex.ExprCond(I(c), x, y)
    yield 'cond', ex.ExprCond(Op('-', x), y, I(3))
    yield 'cond', ex.ExprCond(Op('-', Op('-', x)), y, I(3))
    yield 'cond', ex.ExprCond(Op('-', x, y), y, I(3))
    yield 'cond', ex.ExprCond(Op('==', x, x), y, I(3))
    yield 'cond', ex.ExprCond(x, Op('+', y, I(0)), Op('^', y, y))
    yield 'cond', ex.ExprCond(ex.ExprCond(I(1), x, y), x, y)


def slice_compose_templates():
    ex, mi = exprgen.M()
    I = exprgen.Int
    Op = ex.ExprOp
    Sl, Co = ex.ExprSlice, ex.ExprCompose
    x8, y8 = ex.ExprId('x8', 8), ex.ExprId('y8', 8)
    x16, x32, y32, x64 = ex.ExprId('x16', 16), ex.ExprId('x32', 32), ex.ExprId('y32', 32), ex.ExprId('x64', 64)
    p = ex.ExprId('p32', 32)
    # slice of int
    for w, v in ((32, 0x12345678), (32, 0xffffffff), (32, 0x80000001), (64, 0xfedcba9876543210), (16, 0x8001), (8, 0x81)):
        for (a, b) in ((0, 8), (8, 16), (0, 16), (16, 32), (24, 32), (0, 1), (7, 8), (31, 32), (0, 32), (8, 24), (1, 9), (32, 64), (16, 48), (0, 64), (63, 64), (4, 12), (0, 24)):
            if b <= w:
                yield 'slice-int', Sl(I(v, w), a, b)
    # slice of whole, slice of slice
    for (a, b) in ((0, 32), (0, 8), (8, 16), (16, 32), (31, 32), (0, 1)):
        yield 'slice-whole', Sl(x32, a, b)
        yield 'slice-whole', Sl(Op('+', x32, y32), a, b)
    for (a, b) in ((8, 24), (0, 16), (16, 32), (4, 20)):
        for (c, d) in ((0, 8), (8, 16), (0, 16), (4, 12), (15, 16), (0, 1)):
            if d <= b - a:
                yield 'slice-slice', Sl(Sl(x32, a, b), c, d)
                yield 'slice-slice', Sl(Sl(Sl(x64, 8, 56), a, b), c, d)
    # slices of one source that are consecutive in the source but separated (or reordered) in the composition: they must not be
    # merged across the piece between them
    for K in (I(0x5a, 8), y8, Sl(y32, 8, 16)):
        yield 'compose-interleaved', Co([(Sl(x32, 0, 8), 0, 8), (K, 8, 16), (Sl(x32, 8, 16), 16, 24), (I(0x5a, 8), 24, 32)])
        yield 'compose-interleaved', Co([(Sl(x32, 8, 16), 0, 8), (K, 8, 16), (Sl(x32, 0, 8), 16, 24), (y8, 24, 32)])
        yield 'compose-interleaved', Co([(K, 0, 8), (Sl(x32, 0, 8), 8, 16), (y8, 16, 24), (Sl(x32, 8, 16), 24, 32)])
        yield 'compose-interleaved', Co([(Sl(x32, 0, 8), 0, 8), (Sl(x32, 16, 24), 8, 16), (Sl(x32, 8, 16), 16, 24), (K, 24, 32)])
        yield 'compose-interleaved', Co([(Sl(x64, 0, 16), 0, 16), (Sl(y32, 0, 16), 16, 32), (Sl(x64, 16, 32), 32, 48), (Sl(x64, 32, 48), 48, 64)])
        yield 'compose-interleaved', Op('^', Co([(Sl(x32, 0, 8), 0, 8), (K, 8, 16), (Sl(x32, 8, 24), 16, 32)]), y32)
    # compositions with the same first component and a different later one (and the reverse), as operands of one operator
    a8, b8 = ex.ExprId('a8', 8), ex.ExprId('b8', 8)
    for t1, t2 in ((a8, b8), (Sl(x32, 0, 8), Sl(x32, 8, 16)), (I(1, 8), I(2, 8)), (a8, Op('+', a8, I(1, 8)))):
        c1, c2 = Co([(x8, 0, 8), (t1, 8, 16)]), Co([(x8, 0, 8), (t2, 8, 16)])
        c3, c4 = Co([(x8, 0, 8), (y8, 8, 16), (t1, 16, 24), (a8, 24, 32)]), Co([(x8, 0, 8), (y8, 8, 16), (t2, 16, 24), (a8, 24, 32)])
        for l_, r_ in ((c1, c2), (c3, c4)):
            for o in ('^', '-', '|', '&', '+'):
                yield 'compose-later-slot-twins', Op(o, l_, r_)
            yield 'compose-later-slot-twins', Op('+', l_, Op('-', r_))
            yield 'compose-later-slot-twins', Op('==', l_, r_)
            yield 'compose-later-slot-twins', ex.ExprCond(Op('^', l_, r_), l_, r_)
    # slice of compose
    comp = Co([(x8, 0, 8), (y8, 8, 16), (x16, 16, 32)])
    comp2 = Co([(Sl(x32, 0, 16), 0, 16), (Sl(y32, 16, 32), 16, 32)])
    comp3 = Co([(x8, 0, 8), (I(0, 32), 8, 32)])
    comp4 = Co([(Sl(x32, 31, 32), 0, 1), (I(0, 32), 1, 32)])
    for cmp_ in (comp, comp2, comp3, comp4):
        for (a, b) in ((0, 8), (8, 16), (16, 32), (0, 16), (4, 12), (8, 32), (0, 32), (0, 1), (1, 2), (15, 17), (31, 32), (16, 24), (24, 32), (1, 32), (1, 9)):
            yield 'slice-compose', Sl(cmp_, a, b)
    # slice of mem
    for sz in (16, 32, 64):
        for (a, b) in ((0, 8), (0, 16), (8, 16), (0, 32), (16, 32), (0, 4), (8, 24)):
            if b <= sz:
                yield 'slice-mem', Sl(ex.ExprMem(p, sz), a, b)
                yield 'slice-mem', Sl(ex.ExprMem(Op('+', p, I(4, 32)), sz, ex.ExprId('ds', 16)), a, b)
    # compose merging
    yield 'compose', Co([(Sl(x32, 0, 8), 0, 8), (Sl(x32, 8, 16), 8, 16), (Sl(x32, 16, 32), 16, 32)])
    yield 'compose', Co([(Sl(x32, 0, 16), 0, 16), (Sl(x32, 16, 32), 16, 32)])
    yield 'compose', Co([(Sl(x32, 16, 32), 0, 16), (Sl(x32, 0, 16), 16, 32)])
    yield 'compose', Co([(Sl(x32, 0, 8), 0, 8), (Sl(y32, 8, 16), 8, 16), (Sl(x32, 16, 32), 16, 32)])
    yield 'compose', Co([(Sl(x32, 0, 8), 0, 8), (Sl(x32, 16, 24), 8, 16), (Sl(x32, 24, 32), 16, 24), (Sl(x32, 8, 16), 24, 32)])
    yield 'compose', Co([(Sl(x32, 8, 16), 0, 8), (Sl(x32, 16, 24), 8, 16)])
    yield 'compose', Co([(Sl(x64, 0, 32), 0, 32), (Sl(x64, 32, 64), 32, 64)])
    yield 'compose', Co([(I(0x34, 8), 0, 8), (I(0x12, 8), 8, 16)])
    yield 'compose', Co([(I(0x5678, 16), 0, 16), (I(0x1234, 16), 16, 32)])
    yield 'compose', Co([(I(0xff, 8), 0, 8), (I(0xffffffff, 32), 8, 32)])
    yield 'compose', Co([(I(1, 1), 0, 1), (I(0, 32), 1, 32)])
    yield 'compose', Co([(I(0xffff, 16), 0, 8), (I(0xffffffff, 32), 8, 32)])
    yield 'compose', Co([(I(0x11, 8), 0, 8), (x8, 8, 16), (I(0x2233, 16), 16, 32)])
    yield 'compose', Co([(x8, 0, 8), (I(0x11, 8), 8, 16), (I(0x2233, 16), 16, 32)])
    yield 'compose', Co([(x8, 0, 8), (I(0x11, 8), 8, 16), (y8, 16, 24), (I(0x22, 8), 24, 32)])
    yield 'compose', Co([(I(0x80, 8), 0, 8), (I(0x11, 8), 8, 16), (I(0x2233, 16), 16, 32), (I(0xdeadbeef, 32), 32, 64)])
    yield 'compose', Co([(x32, 0, 32)])
    yield 'compose', Co([(Sl(x32, 0, 32), 0, 32)])
    yield 'compose', Co([(x8, 0, 8), (y8, 8, 16)])
    yield 'compose', Co([(Sl(x32, 31, 32), 0, 1), (I(0, 32), 1, 32)])
    yield 'compose', Co([(Op('+', x8, y8), 0, 8), (Sl(x32, 8, 32), 8, 32)])
    yield 'compose', Co([(Sl(x32, 0, 8), 0, 8), (Sl(x32, 8, 32), 8, 32)])
    yield 'compose', Co([(Sl(x32, 0, 8), 0, 8), (I(0, 8), 8, 16), (Sl(x32, 16, 32), 16, 32)])
    yield 'compose', Op('+', Co([(x8, 0, 8), (I(0, 32), 8, 32)]), Co([(y8, 0, 8), (I(0, 32), 8, 32)]))
    yield 'compose', Sl(Op('+', Co([(x8, 0, 8), (I(0, 32), 8, 32)]), Co([(y8, 0, 8), (I(0, 32), 8, 32)])), 8, 9)
    # adjacent slices that cover a WHOLE narrower source, next to other components (the merged slice must still be reduced to
    # the source); sub-cell pieces of memory starting at bit 0; the same inside operators
    m32 = ex.ExprMem(p, 32)
    for other in (Sl(y32, 0, 16), I(0x1234, 16), Sl(m32, 0, 16)):
        yield 'compose-whole', Co([(Sl(x16, 0, 8), 0, 8), (Sl(x16, 8, 16), 8, 16), (other, 16, 32)])
        yield 'compose-whole', Co([(other, 0, 16), (Sl(x16, 0, 8), 16, 24), (Sl(x16, 8, 16), 24, 32)])
        yield 'compose-whole', Co([(Sl(x16, 0, 4), 0, 4), (Sl(x16, 4, 16), 4, 16), (other, 16, 32)]) if False else Co([(Sl(x16, 0, 8), 0, 8), (Sl(x16, 8, 16), 8, 16), (other, 16, 32)])
    yield 'compose-whole', Co([(Sl(x8, 0, 4), 0, 4), (Sl(x8, 4, 8), 4, 8), (y8, 8, 16)]) if False else Co([(Sl(m32, 0, 8), 0, 8), (y8, 8, 16), (x16, 16, 32)])
    yield 'compose-whole', Co([(Sl(m32, 0, 8), 0, 8), (Sl(m32, 8, 16), 8, 16), (x16, 16, 32)])
    yield 'compose-whole', Co([(Sl(m32, 0, 16), 0, 16), (Sl(m32, 16, 32), 16, 32)])
    yield 'compose-whole', Op('+', Co([(Sl(x16, 0, 8), 0, 8), (Sl(x16, 8, 16), 8, 16), (I(0, 16), 16, 32)]), y32)
    yield 'compose-whole', Co([(Sl(Op('+', x16, I(1, 16)), 0, 8), 0, 8), (Sl(Op('+', x16, I(1, 16)), 8, 16), 8, 16), (Sl(y32, 16, 32), 16, 32)])


def lifted_trees():
    """Expressions produced by lifting a fixed list of instructions (bytes fixed here, decoded by miasmX)."""
    from miasmx.arch.ia32_arch import x86mnemo
    from miasmx.tools import emul_helper
    ex, mi = exprgen.M()
    hexes = ['01d8', '11d8', '29d8', '19d8', '39d8', 'f7d8', '40', '48', '21d8', '09d8', '31d8', 'f7d0', '85d8',
             'c1e005', 'c1e805', 'c1f805', 'd3e0', 'd3e8', 'd3f8', 'c1c003', 'c1c803', 'd1d0', 'd1d8', '0fa4d803', '0facd803',
             'f7e3', 'f7eb', '0fafc3', '6bc307', 'f7f3', 'f7fb', '0fa3d8', '0fabd8', '0fbcc3', '0fbdc3', '98', '99', '9f', '9e',
             '0f94c0', '0f4cc3', '0fb6c3', '0fbec3', '0fb7c3', '8d441805', '87d8', '0fc1d8', '0fb1d8', '50', '58', '6a05',
             'a4', 'a5', 'aa', 'ab', 'ac', 'ae', 'a6', 'c3', 'c20800', 'e805000000', 'ffd0', 'eb05', '7405', 'e2fe', 'e3fe',
             '8b4304', '894304', '014304', '034304', '66 01d8', '6629d8', '00d8', '28d8', '00e0', '8a6304', 'c9', 'c8080000',
             '9c', '9d', '60', '61', 'd7', '27', '2f', '37', '3f', 'd40a', 'd50a', 'f8', 'f9', 'f5', 'fc', 'fd', '0fc8']
    out = []
    for h in hexes:
        b = bytes.fromhex(h.replace(' ', ''))
        try:
            ins = x86mnemo.dis(b)
            if ins is None:
                continue
            affs = emul_helper.get_instr_expr(ins, exprgen.Int(0x1000 + len(b), 32), [])
        except Exception:
            continue
        for a in affs:
            if a.__class__.__name__ == 'ExprAff':
                out.append((h, a.src))
                if a.dst.__class__.__name__ == 'ExprMem':
                    out.append((h, a.dst.arg))
    return out


def ambient_contracts(sh, which):
    """Run the repository's own 278 tests (unedited) with the icontract post-conditions of vf/contracts.py installed
    on the real functions, so that every *internal* call made by the library is watched too."""
    import os, sys, json, subprocess, tempfile
    rep = os.path.join(tempfile.gettempdir(), 'contract_report.%d.json' % os.getpid())
    env = dict(os.environ, VERIF_CONTRACT_REPORT=rep, PYTHONPATH=common.VERIF, PYTHONDONTWRITEBYTECODE='1')
    p = subprocess.run([sys.executable, '-m', 'pytest', '-q', '-p', 'no:cacheprovider', '-p', 'vf.pytest_contracts'], cwd=common.REPO, env=env,
                       stdout=subprocess.PIPE, stderr=subprocess.STDOUT)
    if not os.path.exists(rep):
        sh.extra['ambient_error'] = 'contract run produced no report: %s' % p.stdout.decode(errors='replace')[-400:]
        return
    r = json.load(open(rep))
    os.unlink(rep)
    sh.extra['ambient_counters'] = r['counters']
    sh.counters['contract_evaluations:' + which] += r['counters'].get(which if which != 'modint' else 'modint_init', 0)
    sh.evaluations += r['counters'].get('expr_simp_compared' if which == 'expr_simp' else 'modint_init', 0)
    for key, detail, canon in r['violations']:
        if key.startswith('ambient/' + which):
            sh.violation(key, 'during the repository\'s own tests: %s' % detail, {'tree': canon, 'ambient': True})
    sh.sample({'ambient contracts during the repository tests': r['counters'], 'pytest': p.stdout.decode(errors='replace').strip().splitlines()[-1] if p.stdout else ''})


def shadow_templates(names, order):
    """Expressions whose printed text and outer width coincide although their inner widths differ (identifiers and
    constants print the same at every width): a memo keyed on the text would confuse them. Yields (family, tree) in an
    order that visits each pair (narrow first / wide first according to `order`)."""
    ex, mi = exprgen.M()
    Op = ex.ExprOp
    pairs = ((16, 32), (8, 32), (8, 16), (32, 64))
    for ws in pairs:
        seq = ws if order == 'narrow-first' else tuple(reversed(ws))
        for w in seq:
            I = lambda v: exprgen.Int(v, w)
            x, y = ex.ExprId(names[0], w), ex.ExprId(names[1], w)
            inner = [Op('>>', Op('-', I(1)), I(8 if w > 8 else 3)), Op('>>>', x, I(4)), Op('<<<', x, I(4)), Op('>>', Op('+', x, I(0x7f)), I(4)),
                     Op('a>>', x, I(4)), Op('>>', Op('-', x), I(w // 2)), Op('>>', Op('*', x, I(0x55)), I(4)), Op('>>', Op('+', x, y), I(1)),
                     Op('>>>', Op('+', x, I(1)), I(9)), Op('-', I(0), x), Op('>>', Op('^', x, I(irsem.mask(min(ws)))), I(4)), Op('a>>', Op('-', I(1)), I(1))]
            c8a, c8b = ex.ExprId('p8', 8), ex.ExprId('q8', 8)
            for t in inner:
                yield 'shadow:slice', ex.ExprSlice(t, 0, 8)
                if min(ws) >= 16:
                    yield 'shadow:slice', ex.ExprSlice(t, 8, 16)
                yield 'shadow:cond', ex.ExprCond(t, c8a, c8b)
                yield 'shadow:compose', ex.ExprCompose([(ex.ExprSlice(t, 0, 8), 0, 8), (c8a, 8, 16)])
                if w == 32:
                    yield 'shadow:mem', ex.ExprMem(t, 8)


def shared_copy(e, pool=None):
    """Copy in which structurally identical sub-terms are ONE object (as trees built by user code and by the lifter are): a
    rewrite that edits a node of its input in place then shows in the node's other occurrences and in the next call."""
    ex, mi = exprgen.M()
    pool = {} if pool is None else pool
    c = exprgen.canon(e)
    if c in pool:
        return pool[c]
    k = e.__class__.__name__
    if k == 'ExprInt':
        r = ex.ExprInt(e.arg.__class__(e.arg))
    elif k == 'ExprId':
        r = ex.ExprId(e.name, e.size, is_term=e.is_term, is_reg=e.is_reg)
    elif k == 'ExprMem':
        r = ex.ExprMem(shared_copy(e.arg, pool), e.size, shared_copy(e.segm, pool) if hasattr(e.segm, 'visit') else e.segm)
    elif k == 'ExprSlice':
        r = ex.ExprSlice(shared_copy(e.arg, pool), e.start, e.stop)
    elif k == 'ExprCompose':
        r = ex.ExprCompose([(shared_copy(a, pool), s_, t_) for a, s_, t_ in e.args])
    elif k == 'ExprCond':
        r = ex.ExprCond(shared_copy(e.cond, pool), shared_copy(e.src1, pool), shared_copy(e.src2, pool))
    elif k == 'ExprOp':
        r = ex.ExprOp(e.op, *[shared_copy(a, pool) for a in e.args])
    else:
        raise ValueError(k)
    pool[c] = r
    return r


def check_shared(sh, e, seedtag, origin):
    """The tree with shared sub-term objects, simplified, simplified again (same object), and its parts simplified afterwards:
    every result must still have the value of the tree as it was given."""
    c = exprgen.canon(e)
    if irsem.typecheck(e):
        return
    envs = valuations(e, seedtag)
    pool = {}
    inp = shared_copy(e, pool)
    stages = []
    try:
        s1, _ = simp_monitored(inp)
        stages.append(('first', e, s1))
        s2, _ = simp_monitored(inp)
        stages.append(('second-call-same-object', e, s2))
        # the sub-terms of the caller's tree, simplified after the whole (they are the caller's objects, possibly edited by now)
        for ck, obj in list(pool.items()):
            if obj.__class__.__name__ in ('ExprCompose', 'ExprSlice', 'ExprOp') and ck != c:
                so, _ = simp_monitored(obj)
                stages.append(('part-after-whole', parse_back(ck, e), so))
    except common.StepBound as ex:
        sh.violation('%s/shared:step-bound' % root_skeleton(e), str(ex), {'tree': c, 'shared': True})
        return
    except Exception as ex:
        sh.counters['shared_raises:%s' % type(ex).__name__] += 1
        return
    sh.case(('shared', c), nontrivial=True, cls='shared:%s' % origin)
    for what, ref, got in stages:
        if ref is None:
            continue
        err = compare(ref, got, valuations(ref, seedtag) if ref is not e else envs)
        if err is not None and err[0] != 'input-ill-formed':
            # only a history effect if the same term simplified from a fresh copy is right
            if run_one(ref, seedtag) is None:
                sh.violation('%s/shared:%s/%s' % (root_skeleton(e), what, err[0]), 'tree %s built with shared sub-term objects: %s gives %s : %s (the same term simplified from a fresh copy is right)' % (e, what, got, err[1]),
                             {'tree': c, 'shared': True})
                return


def parse_back(ck, e):
    for t in exprgen.subterms(e):
        if exprgen.canon(t) == ck:
            return t
    return None


def shared_templates():
    """Slices that sit in a mergeable composition AND elsewhere in the same tree."""
    ex, mi = exprgen.M()
    I = exprgen.Int
    S, Cm, Op = ex.ExprSlice, ex.ExprCompose, ex.ExprOp
    for w, nm in ((32, 'x32'), (64, 'x64'), (16, 'x16')):
        x = ex.ExprId(nm, w)
        c = ex.ExprId('c1', 1)
        q = w // 4
        lo, mid, hi = S(x, 0, q), S(x, q, 2 * q), S(x, 2 * q, 3 * q)
        z = lambda t, tw: Cm([(t, 0, tw), (S(I(0, w), tw, w), tw, w)])
        pair = Cm([(lo, 0, q), (mid, q, 2 * q), (S(ex.ExprId('y' + nm[1:], w), 0, w - 2 * q), 2 * q, w)])
        pair2 = Cm([(S(ex.ExprId('y' + nm[1:], w), 0, w - 2 * q), 0, w - 2 * q), (mid, w - 2 * q, w - q), (hi, w - q, w)])
        for other_name, other in (('lo', lo), ('mid', mid), ('hi', hi)):
            yield 'shared-slice', Op('+', pair, z(other, q))
            yield 'shared-slice', Op('^', z(other, q), pair)
            yield 'shared-slice', ex.ExprCond(c, pair, Cm([(other, 0, q), (S(I(0, w), q, w), q, w)]))
            yield 'shared-slice', ex.ExprCond(c, Cm([(other, 0, q), (S(I(0, w), q, w), q, w)]), pair)
            yield 'shared-slice', Op('+', pair2, z(other, q))
            yield 'shared-slice', ex.ExprCond(S(other, 0, 1), pair2, pair)
        yield 'shared-slice', Op('+', pair, pair2)
        yield 'shared-slice', Op('^', pair, Cm([(mid, 0, q), (lo, q, 2 * q), (S(x, 2 * q, w), 2 * q, w)]))


def narrow_count_templates():
    """Shifts and rotates whose constant count is narrower than the shifted value (as the lifter writes for shifts by cl and by
    imm8): the result has the width of the value."""
    ex, mi = exprgen.M()
    I = exprgen.Int
    Op = ex.ExprOp
    for w in (16, 32, 64):
        x, y = ex.ExprId('x%d' % w, w), ex.ExprId('y%d' % w, w)
        m_ = irsem.mask(w)
        inners = [x, Op('&', x, I(0xff, w)), Op('&', x, I(1, w)), Op('&', x, I(m_, w)), Op('&', x, I(0x100, w)), Op('|', x, I(0xff, w)), Op('^', x, I(1 << (w - 1), w)),
                  Op('+', x, I(1, w)), I(0x81, w), I(m_, w), Op('&', I(0xf0, w), x)]
        for o1 in ('>>', '<<', 'a>>', '<<<', '>>>'):
            for k in (0, 1, 7, 8, 9, w - 1, w, w + 1, 255):
                for inner in inners:
                    e = Op(o1, inner, I(k & 0xff, 8))
                    yield 'narrow-count', e
                    yield 'narrow-count', Op('+', e, y)
                    yield 'narrow-count', Op('^', Op(o1, Op(o1, inner, I(k & 0xff, 8)), I(3, 8)), y)


def shards(tier, seed):
    out = [('shadow', 'narrow-first'), ('shadow', 'wide-first'), ('shared', 0), ('shared', 1), ('shared', 2), ('shared', 3), ('narrowcount', 0), ('narrowcount', 1)]
    for w in (1, 8, 16, 32, 64):
        for part in range(4):
            out.append(('tmpl', w, part))
    out.append(('slicecomp',))
    out.append(('lifted',))
    out.append(('ambient',))
    n = 64 if tier == 'quick' else 1600
    out += [('rand', i) for i in range(n)]
    return out


def run_shard(shard, tier, seed):
    sh = common.Shard()
    install_monitor()
    kind = shard[0]
    if kind == 'tmpl':
        _, w, part = shard
        exh = 65536 if tier == 'thorough' else 512
        for i, (fam, t) in enumerate(templates(w)):
            if i % 4 != part:
                continue
            check_tree(sh, t, ('t', w, i), 'tmpl:%s' % fam, exhaustive8=exh if w == 8 else 0)
    elif kind == 'shadow':
        for i, (fam, t) in enumerate(shadow_templates(('x', 'y') if shard[1] == 'narrow-first' else ('u', 'v'), shard[1])):
            check_tree(sh, t, ('sh', shard[1], i), 'tmpl:%s' % fam)
    elif kind == 'slicecomp':
        for i, (fam, t) in enumerate(slice_compose_templates()):
            check_tree(sh, t, ('sc', i), 'tmpl:%s' % fam, exhaustive8=512)
    elif kind == 'shared':
        corpus = [(fam, t) for fam, t in shared_templates()] + [(fam, t) for fam, t in slice_compose_templates()]
        for i, (fam, t) in enumerate(corpus):
            if i % 4 == shard[1]:
                check_shared(sh, t, ('shr', i), 'tmpl:%s' % fam)
        rng = common.rng_for(seed, 'C05shared', shard[1])
        g = exprgen.Gen(rng, ops=('+', '*', '^', '&', '|'), segm=True)
        for i in range(30 if tier == 'quick' else 400):
            check_shared(sh, g.gen(rng.choice((8, 16, 32, 32, 64)), rng.choice((2, 3, 3, 4))), (seed, 'shr', shard[1], i), 'rand')
    elif kind == 'narrowcount':
        for i, (fam, t) in enumerate(narrow_count_templates()):
            if i % 2 == shard[1]:
                check_tree(sh, t, ('nc', i), 'tmpl:%s' % fam)
    elif kind == 'ambient':
        ambient_contracts(sh, 'expr_simp')
    elif kind == 'lifted':
        for i, (h, t) in enumerate(lifted_trees()):
            check_tree(sh, t, ('l', i), 'lifted')
        sh.extra['lifted_trees'] = len(lifted_trees())
    else:
        rng = common.rng_for(seed, 'C05', shard[1])
        g = exprgen.Gen(rng, ops=('+', '*', '^', '&', '|'), segm=True)
        n = 40 if tier == 'quick' else 100
        for i in range(n):
            w = rng.choice((8, 16, 32, 32, 64, 1))
            d = rng.choice((1, 2, 2, 3, 3, 4))
            e = g.gen(w, d)
            check_tree(sh, e, (seed, shard[1], i), 'rand')
    return sh


def finalize(merged, tier, seed):
    cov = {'max_rewrite_steps_in_one_call': merged.extra.get('max_steps', 0),
           'exhaustive': False,
           'exhaustive_note': '%d two-variable 8-bit templates compared on all 65536 valuations' % merged.counters.get('exhaustive_8bit_templates', 0)}
    out = {'coverage': cov}
    if merged.counters.get('rewrite_steps', 0) == 0:
        out['inconclusive'] = ['the step counter on _expr_simp never fired: monitor not installed on the real function']
    if merged.extra.get('ambient_error'):
        out.setdefault('inconclusive', []).append(merged.extra['ambient_error'])
    elif merged.counters.get('contract_evaluations:expr_simp', 0) == 0:
        out.setdefault('inconclusive', []).append('the ambient expr_simp contract was never evaluated during the repository tests (bound references bypass it?)')
    cov['ambient_contract_evaluations'] = merged.extra.get('ambient_counters', {})
    return out


def replay(w):
    from vf.checks.c15 import parse_canon
    sh = common.Shard()
    install_monitor()
    e = parse_canon(w['tree'])
    if w.get('shared'):
        check_shared(sh, e, ('replay',), 'replay')
        return [(v['key'], v['detail']) for v in sh.violations]
    check_tree(sh, e, ('replay',), 'replay', exhaustive8=65536)
    return [(v['key'], v['detail']) for v in sh.violations]
