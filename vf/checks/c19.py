"""C19 - equivalent spellings of an assembly line assemble identically.

Metamorphic monitor: two presentation-only spellings of one line must yield the same *set*
of candidate encodings; an Intel line and its AT&T transliteration (the reference spelling:
objdump -M att of GNU as's encoding) must yield the same set too.
"""
import re
from vf import common, gnuref, x86ref, asmgen
from vf.checks.c03 import family

PROPERTY = 'C19'
RULE = ('accepted lines of the C02 generator (Intel syntax) x presentation-only rewrites: register case (incl. segment and st(i)), case of size keywords / PTR / OFFSET FLAT, '
        'spacing (no space after commas, doubled spaces, tabs, spaces inside brackets), decimal vs 0x / 0X numbers, negative vs two\'s-complement unsigned number at the operand '
        'width (8/16/32) and for displacements, [r+d] vs d[r] vs [d+r], [b+i*s] vs [i*s+b] (only when roles are unambiguous: scale != 1), optional % register prefix, '
        'st vs st(0), and Intel <-> AT&T transliteration (through the reference printer, and directly written pairs, whose AT&T side is itself respelled: number base 0x/0X, spacing, register case; for ALU/mov/test/push/imul immediates at every width boundary incl. negative values, register and memory destinations of 8/16/32 bits). A case = (rewrite, base line, variant); non-trivial = the base line has >= 1 candidate and the rewrite changed the text.')
RULE += ' Round 6: symbol-relative operands: N+sym[regs] against sym[regs+N], N[regs+M] against [regs+(N+M)]; the displacement-outside rewrite no longer fires on operands that already carry a symbol or an outer displacement.'
RULE += ' Round 7: x87 arithmetic with st(0) as destination: one- and two-operand spellings in both syntaxes (six mnemonics x 8 registers).'
RULE += " Round 8: 8-bit immediates of ten MMX/SSE instructions in unsigned, hexadecimal and two's-complement spelling, both syntaxes."
RULE += ' Round 9: explicit segment overrides (6 segments x 7 address forms x 4 instruction forms) written in Intel and in AT&T syntax.'
ASSUMPTIONS = ['rewrites that change base/index roles ([eax+ebx] vs [ebx+eax]) are not applied (the statement exempts them)',
               'the AT&T transliteration is the reference\'s (GNU as + objdump -M att), not miasmX\'s']

REGS = asmgen.R32 + asmgen.R16 + asmgen.R8 + asmgen.MM + asmgen.XMM
ST_RE = re.compile(r'(?<![\w%.$@])(st)(?![\w])')
REG_RE = re.compile(r'(?<![\w%.$@])(' + '|'.join(sorted(REGS, key=len, reverse=True)) + r')(?![\w])')
SEG_RE = re.compile(r'(?<![\w%.$@])(' + '|'.join(asmgen.SREG) + r')(?![\w])')
CRDR_RE = re.compile(r'(?<![\w%.$@])([cd]r[0-7])(?![\w])')
KW_RE = re.compile(r'\b(BYTE|WORD|DWORD|QWORD|TBYTE|XMMWORD|PTR|OFFSET|FLAT)\b')
NUM_RE = re.compile(r'(?<![\w.()$@])(\d+)(?![\w)])')
NEG_RE = re.compile(r'(?<![\w.)\]])-(\d+)(?![\w)])')


def rewrites(line, shape, v):
    """Yield (rewrite kind, variant)."""
    mn, _, ops = line.partition(' ')
    if not ops:
        yield 'spacing', mn + '  '
        yield 'spacing', '  ' + mn
        return
    # registers
    t = REG_RE.sub(lambda m: m.group(1).upper(), ops)
    if t != ops:
        yield 'register-case', '%s %s' % (mn, t)
    t = SEG_RE.sub(lambda m: m.group(1).upper(), ops)
    if t != ops:
        yield 'segment-register-case', '%s %s' % (mn, t)
    t = ST_RE.sub('ST', ops)
    if t != ops:
        yield 'st-register-case', '%s %s' % (mn, t)
    t = CRDR_RE.sub(lambda m: m.group(1).upper(), ops)
    if t != ops:
        yield 'control-debug-register-case', '%s %s' % (mn, t)
    t = KW_RE.sub(lambda m: m.group(1).lower(), ops)
    if t != ops:
        yield 'keyword-case', '%s %s' % (mn, t)
    yield 'spacing', '%s %s' % (mn, ops.replace(', ', ','))
    yield 'spacing', '%s   %s' % (mn, ops.replace(', ', ' ,  ').replace('[', '[ ').replace(']', ' ]').replace('+', ' + '))
    yield 'spacing', '%s\t%s' % (mn, ops.replace(' ', '\t'))
    t = NUM_RE.sub(lambda m: '0x%x' % int(m.group(1)), ops)
    if t != ops:
        yield 'number-base', '%s %s' % (mn, t)
        yield 'number-base', '%s %s' % (mn, NUM_RE.sub(lambda m: '0X%X' % int(m.group(1)), ops))
    # negative number <-> unsigned at the operand width
    if v is not None and v < 0 and shape in ('r32,i', 'eax,i', 'm32,i', 'i', 'r32,r32,i', 'r32,m32,i') and v >= -2 ** 31:
        yield 'sign-convention-32', '%s %s' % (mn, re.sub(r'-%d$' % -v, '%d' % (v + 2 ** 32), ops))
    if v is not None and v < 0 and shape in ('r16,i', 'ax,i', 'm16,i', 'r16,r16,i') and v >= -2 ** 15:
        yield 'sign-convention-16', '%s %s' % (mn, re.sub(r'-%d$' % -v, '%d' % (v + 2 ** 16), ops))
    if v is not None and v < 0 and shape in ('r8,i', 'al,i', 'm8,i') and v >= -2 ** 7:
        yield 'sign-convention-8', '%s %s' % (mn, re.sub(r'-%d$' % -v, '%d' % (v + 2 ** 8), ops))
    m = re.search(r'(?<![\w\]])(-?)(\d+)\+some_symbol\[([^\]]+)\]', ops)
    if m:
        sg, d, inner = m.groups()
        yield 'sym-disp-inside', '%s %s' % (mn, ops.replace(m.group(0), 'some_symbol[%s%s%s]' % (inner, sg or '+', d)))
    m = re.search(r'(?<![\w\]+])(-?\d+)\[([^\]]+?)([+-]\d+)\]', ops)
    if m:
        outer, inner, d = m.groups()
        tot = int(outer) + int(d)
        yield 'disp-sum', '%s %s' % (mn, ops.replace(m.group(0), '[%s%s%d]' % (inner, '+' if tot >= 0 else '-', abs(tot))))
    m = re.search(r'(?<![\w\]])\[(e[a-z]{2})([+-])(\d+)\]', ops)
    if m:
        r, sg, d = m.groups()
        dd = ('-' if sg == '-' else '') + d
        yield 'disp-outside', '%s %s' % (mn, ops.replace(m.group(0), '%s[%s]' % (dd, r)))
        if sg == '+':
            yield 'disp-first', '%s %s' % (mn, ops.replace(m.group(0), '[%s+%s]' % (d, r)))
        if sg == '-':
            yield 'sign-convention-disp', '%s %s' % (mn, ops.replace(m.group(0), '[%s+%d]' % (r, 2 ** 32 - int(d))))
    m = re.search(r'\[(e[a-z]{2})\+(e[a-z]{2})\*([248])([+-]\d+)?\]', ops)
    if m:
        b, i, s, d = m.groups()
        yield 'term-order', '%s %s' % (mn, ops.replace(m.group(0), '[%s*%s+%s%s]' % (i, s, b, d or '')))
        yield 'term-order', '%s %s' % (mn, ops.replace(m.group(0), '[%s+%s*%s%s]' % (b, s, i, d or '')))
        if d:
            yield 'term-order', '%s %s' % (mn, ops.replace(m.group(0), '[%s%s+%s*%s]' % (b, d, i, s)))
    t = REG_RE.sub(lambda m: '%' + m.group(1), ops)
    if t != ops:
        yield 'percent-prefix', '%s %s' % (mn, t)
    t = SEG_RE.sub(lambda m: '%' + m.group(1), ops)
    if t != ops:
        yield 'percent-prefix-segment', '%s %s' % (mn, t)
    if re.search(r'\bst\b(?!\()', ops):
        yield 'st-vs-st0', '%s %s' % (mn, re.sub(r'\bst\b(?!\()', 'st(0)', ops))
    if 'st(0)' in ops:
        yield 'st-vs-st0', '%s %s' % (mn, ops.replace('st(0)', 'st'))


def asm_set(f, line):
    try:
        return set(f(line)), None
    except ValueError:
        return None, 'ValueError'
    except Exception as e:
        return None, type(e).__name__


def run_batch(sh, batch):
    from miasmx.arch.ia32_arch import x86mnemo
    accepted = []
    for line, mn, shape, v in batch:
        base, err = asm_set(x86mnemo.asm, line)
        if not base:
            continue
        accepted.append((line, mn, shape, v, base))
        fam = family(mn)
        if fam == 'MMX-SSE':
            shape_k = '*'
        else:
            shape_k = shape
        for kind, var in rewrites(line, shape, v):
            if var == line:
                continue
            sh.case((kind, line, var), True, cls='%s/%s' % (kind, shape))
            got, err = asm_set(x86mnemo.asm, var)
            wit = {'rewrite': kind, 'line': line, 'variant': var}
            if kind in ('segment-register-case', 'percent-prefix-segment', 'control-debug-register-case', 'st-register-case', 'sign-convention-16', 'sign-convention-8'):
                fam = '*'       # systematic: the lexer classifies these names case-sensitively / without the % form, whatever the mnemonic
            if got is None:
                sh.violation('%s/%s/%s/raises:%s' % (kind, fam, shape_k, err), '%r has %d candidates but its respelling %r is rejected (%s)' % (line, len(base), var, err), wit)
            elif not got:
                sh.violation('%s/%s/%s/one-side-empty' % (kind, fam, shape_k), '%r has %d candidates but its respelling %r has none' % (line, len(base), var), wit)
            elif got != base:
                sh.violation('%s/%s/%s/sets-differ' % (kind, fam, shape_k), '%r -> %s but %r -> %s' % (line, sorted(x.hex() for x in base)[:4], var, sorted(x.hex() for x in got)[:4]), wit)
            if len(sh.samples) < 4:
                sh.sample({'line': line, 'rewrite': kind, 'variant': var, 'same': got == base})
    # Intel <-> AT&T: the reference transliteration
    ref = gnuref.gas([a[0] for a in accepted], 'intel')
    ok = [i for i, (g, msg) in enumerate(ref) if g and 'shortened' not in msg and 'truncated' not in msg]
    att = gnuref.objdump([ref[i][0] for i in ok], 'att,suffix')
    back = gnuref.gas([re.sub(r'\s+', ' ', t[1]) for t in att], 'att')
    for i, (l, t), (g2, m2) in zip(ok, att, back):
        line, mn, shape, v, base = accepted[i]
        if l != len(ref[i][0]) or '(bad)' in t or x86ref.is_rel_branch(t) or g2 != ref[i][0]:
            continue      # objdump's AT&T text must itself be a faithful spelling (GNU as reads it back to the same bytes)
        t = re.sub(r'\s+', ' ', t).strip()
        fam = family(mn)
        shape_k = '*' if fam == 'MMX-SSE' else shape
        sh.case(('att', line, t), True, cls='intel-att/%s' % shape)
        got, err = asm_set(x86mnemo.asm_att, t)
        wit = {'rewrite': 'intel-att', 'line': line, 'variant': t}
        if got is None:
            sh.violation('intel-att/%s/%s/raises:%s' % (fam, shape_k, err), 'Intel %r has %d candidates but asm_att rejects the AT&T spelling %r (%s)' % (line, len(base), t, err), wit)
        elif not got:
            sh.violation('intel-att/%s/%s/one-side-empty' % (fam, shape_k), 'Intel %r has %d candidates but AT&T %r has none' % (line, len(base), t), wit)
        elif got != base:
            sh.violation('intel-att/%s/%s/sets-differ' % (fam, shape_k), 'Intel %r -> %s but AT&T %r -> %s' % (line, sorted(x.hex() for x in base)[:4], t, sorted(x.hex() for x in got)[:4]), wit)


def direct_pairs():
    """(Intel line, AT&T line, mnemonic, shape, value) written out directly (not through a reference printer, which never
    prints negative immediates): ALU/mov/test with an immediate at every width boundary, destinations of 8/16/32 bits in
    registers and in memory with and without displacement/index."""
    out = []
    regs = {8: [('al', '%al'), ('bh', '%bh')], 16: [('ax', '%ax'), ('si', '%si')], 32: [('eax', '%eax'), ('edi', '%edi')]}
    mems = [('[eax]', '(%eax)'), ('[ebx+ecx*2+4]', '4(%ebx,%ecx,2)'), ('[ebp-4]', '-4(%ebp)'), ('[esi+64]', '64(%esi)'), ('[edx+4096]', '4096(%edx)')]
    kw = {8: 'BYTE PTR', 16: 'WORD PTR', 32: 'DWORD PTR'}
    for mn in ('mov', 'add', 'adc', 'sub', 'sbb', 'and', 'or', 'xor', 'cmp', 'test'):
        for w, sfx in ((8, 'b'), (16, 'w'), (32, 'l')):
            for v in asmgen.IMM_BOUNDARY:
                for ri, ra in regs[w]:
                    out.append(('%s %s, %d' % (mn, ri, v), '%s%s $%d, %s' % (mn, sfx, v, ra), mn, 'direct:r%d,i' % w, v))
                for mi_, ma in mems:
                    out.append(('%s %s %s, %d' % (mn, kw[w], mi_, v), '%s%s $%d, %s' % (mn, sfx, v, ma), mn, 'direct:m%d,i' % w, v))
    for v in asmgen.IMM_BOUNDARY:
        out.append(('push %d' % v, 'pushl $%d' % v, 'push', 'direct:i', v))
        out.append(('push WORD PTR %d' % v, 'pushw $%d' % v, 'push', 'direct:i16', v))
        out.append(('imul ecx, ebx, %d' % v, 'imull $%d, %%ebx, %%ecx' % v, 'imul', 'direct:r32,r32,i', v))
        out.append(('imul cx, WORD PTR [ebx+8], %d' % v, 'imulw $%d, 8(%%ebx), %%cx' % v, 'imul', 'direct:r16,m16,i', v))
    for mn in ('push', 'pop', 'inc', 'dec', 'neg', 'not', 'mul', 'div'):
        for w, sfx in ((16, 'w'), (32, 'l')) if mn in ('push', 'pop') else ((8, 'b'), (16, 'w'), (32, 'l')):
            for ri, ra in regs[w]:
                out.append(('%s %s' % (mn, ri), '%s%s %s' % (mn, sfx, ra), mn, 'direct:r%d' % w, None))
            for mi_, ma in mems:
                out.append(('%s %s %s' % (mn, kw[w], mi_), '%s%s %s' % (mn, sfx, ma), mn, 'direct:m%d' % w, None))
    return out


def att_rewrites(line):
    """Presentation-only respellings of an AT&T line: number base (0x / 0X / decimal), spacing, register case."""
    mn, _, ops = line.partition(' ')
    num = re.compile(r'(?<![\w%])(\d+)(?![\w(]*x)')
    def hexify(fmt):
        return re.sub(r'(?<![\w%.])(\d+)\b', lambda m: fmt % int(m.group(1)), ops)
    t = hexify('0x%x')
    if t != ops:
        yield 'number-base', '%s %s' % (mn, t)
        yield 'number-base', '%s %s' % (mn, hexify('0X%X'))
    yield 'spacing', '%s %s' % (mn, ops.replace(', ', ','))
    yield 'spacing', '%s   %s' % (mn, ops.replace(', ', ' ,  '))
    yield 'spacing', '%s\t%s' % (mn, ops)
    t = re.sub(r'%([a-z]+)', lambda m: '%' + m.group(1).upper(), ops)
    if t != ops:
        yield 'register-case', '%s %s' % (mn, t)


def run_direct(sh, pairs):
    from miasmx.arch.ia32_arch import x86mnemo
    for li, la, mn, shape, v in pairs:
        a, erra = asm_set(x86mnemo.asm, li)
        b, errb = asm_set(x86mnemo.asm_att, la)
        if not a and not b:
            continue
        sh.case(('direct', li, la), True, cls='intel-att-direct/%s' % shape)
        wit = {'rewrite': 'intel-att', 'line': li, 'variant': la}
        icls = asmgen.imm_class(v, int(re.search(r'(\d+),i$', shape).group(1)) if re.search(r'(\d+),i$', shape) else (16 if shape.endswith('i16') else 32))
        # keyed without the mnemonic: the differences observed on the unchanged tree come from the typing of immediates in the
        # two front ends (plain int vs fixed-width), whatever the mnemonic
        key = 'intel-att-direct/%s/%s' % (shape, icls)
        if a and not b:
            sh.violation(key + '/att-side-empty', 'Intel %r has %d candidates but its AT&T spelling %r has none (%s)' % (li, len(a), la, errb or 'empty list'), wit)
        elif b and not a:
            sh.violation(key + '/intel-side-empty', 'AT&T %r has %d candidates but its Intel spelling %r has none (%s)' % (la, len(b), li, erra or 'empty list'), wit)
        elif a != b:
            sh.violation(key + '/sets-differ', 'Intel %r -> %s but AT&T %r -> %s' % (li, sorted(x.hex() for x in a)[:4], la, sorted(x.hex() for x in b)[:4]), wit)
        # presentation-only rewrites of the AT&T line itself
        if b:
            for kind, var in att_rewrites(la):
                if var == la:
                    continue
                sh.case(('att-rewrite', kind, la, var), True, cls='att-%s/%s' % (kind, shape))
                got, err = asm_set(x86mnemo.asm_att, var)
                w2 = {'rewrite': 'att-' + kind, 'line': la, 'variant': var}
                k2 = 'att-%s/%s' % (kind, shape)
                if got is None:
                    sh.violation(k2 + '/raises:%s' % err, 'AT&T %r has %d candidates but its respelling %r is rejected (%s)' % (la, len(b), var, err), w2)
                elif got != b:
                    sh.violation(k2 + ('/one-side-empty' if not got else '/sets-differ'), 'AT&T %r -> %s but %r -> %s' % (
                        la, sorted(x.hex() for x in b)[:4], var, sorted(x.hex() for x in got)[:4]), w2)


NPARTS = 96


def shards(tier, seed):
    return [('p', p) for p in range(NPARTS)] + [('direct', i) for i in range(8)] + [('x87', 0)]


def run_sse_imm(sh):
    """8-bit immediates of MMX/SSE instructions: unsigned, hexadecimal and two's-complement spellings, in both syntaxes."""
    from miasmx.arch.ia32_arch import x86mnemo
    forms = [('pshufd', 'xmm0, xmm1, %s', '$%s, %%xmm1, %%xmm0'), ('shufps', 'xmm0, xmm1, %s', '$%s, %%xmm1, %%xmm0'), ('pshufw', 'mm0, mm1, %s', '$%s, %%mm1, %%mm0'),
             ('psrldq', 'xmm1, %s', '$%s, %%xmm1'), ('psllw', 'xmm1, %s', '$%s, %%xmm1'), ('psrlq', 'mm1, %s', '$%s, %%mm1'), ('pinsrw', 'xmm0, eax, %s', '$%s, %%eax, %%xmm0'),
             ('pextrw', 'eax, xmm1, %s', '$%s, %%xmm1, %%eax'), ('cmpps', 'xmm0, xmm1, %s', '$%s, %%xmm1, %%xmm0'), ('shufpd', 'xmm0, xmm1, %s', '$%s, %%xmm1, %%xmm0')]
    for mn, fi, fa in forms:
        for v in (255, 0xe4, 128, 0x81, 127, 1):
            base_line = '%s %s' % (mn, fi % v)
            base, err = asm_set(x86mnemo.asm, base_line)
            if not base:
                sh.counters['sse_imm_base_not_assembled'] += 1
                continue
            neg = v - 256 if v >= 128 else None
            variants = [('intel-hex', x86mnemo.asm, '%s %s' % (mn, fi % ('0x%x' % v))), ('att-decimal', x86mnemo.asm_att, '%s %s' % (mn, fa % v)), ('att-hex', x86mnemo.asm_att, '%s %s' % (mn, fa % ('0x%x' % v)))]
            if neg is not None:
                variants += [('intel-negative', x86mnemo.asm, '%s %s' % (mn, fi % neg)), ('att-negative', x86mnemo.asm_att, '%s %s' % (mn, fa % neg))]
            for kind, f, line in variants:
                got, err = asm_set(f, line)
                sh.case(('sse-imm', base_line, line), True, cls='sse-imm8/%s' % kind)
                if got != base:
                    sh.violation('sse-imm8/%s/%s' % (kind, 'raises:' + err if got is None else ('empty' if not got else 'sets-differ')),
                                 '%r -> %s but %r -> %s' % (base_line, sorted(c.hex() for c in base), line, sorted(c.hex() for c in got) if got is not None else err),
                                 {'rewrite': 'intel-att' if kind.startswith('att') else 'intel', 'line': base_line, 'variant': line})


def run_segover(sh):
    """Explicit segment overrides written in both syntaxes: an override is kept or dropped by both front ends alike (the default
    segment of the base register makes some overrides redundant, which both may or may not encode, but identically)."""
    from miasmx.arch.ia32_arch import x86mnemo
    mems = [('[ebp+4]', '4(%ebp)', 'stack-base'), ('[esp+8]', '8(%esp)', 'stack-base'), ('[ebx+4]', '4(%ebx)', 'data-base'), ('[eax]', '(%eax)', 'data-base'),
            ('[ebp+esi*2+4]', '4(%ebp,%esi,2)', 'stack-base'), ('[eax+ebp*2]', '(%eax,%ebp,2)', 'data-base'), ('[0x1234]', '0x1234', 'absolute')]
    forms = [('mov eax, DWORD PTR %s:%s', 'movl %%%s:%s, %%eax'), ('mov BYTE PTR %s:%s, cl', 'movb %%cl, %%%s:%s'), ('add WORD PTR %s:%s, dx', 'addw %%dx, %%%s:%s'), ('push DWORD PTR %s:%s', 'pushl %%%s:%s')]
    for seg in ('es', 'cs', 'ss', 'ds', 'fs', 'gs'):
        for mi, ma, bcls in mems:
            for fi, fa in forms:
                li, la = fi % (seg, mi), fa % (seg, ma)
                a, erra = asm_set(x86mnemo.asm, li)
                b, errb = asm_set(x86mnemo.asm_att, la)
                if not a and not b:
                    continue
                sh.case(('segover', li, la), True, cls='segment-override/%s/%s' % (seg, bcls))
                if a != b:
                    kind = 'one-side-rejects' if (a is None or b is None) else ('one-side-empty' if (not a or not b) else 'sets-differ')
                    sh.violation('segment-override/%s/%s/%s/%s' % (seg, bcls, li.split()[0], kind), '%r -> %s but %r -> %s' % (li, sorted(c.hex() for c in a) if a is not None else erra, la, sorted(c.hex() for c in b) if b is not None else errb),
                                 {'rewrite': 'intel-att', 'line': li, 'variant': la})


def run_x87(sh):
    """x87 arithmetic with st(0) as destination: the one-operand and the two-operand spelling, in both syntaxes, are one
    instruction (the AT&T mnemonic reversal concerns only a st(i) destination, which is left out)."""
    from miasmx.arch.ia32_arch import x86mnemo
    for mn in ('fadd', 'fsub', 'fsubr', 'fmul', 'fdiv', 'fdivr'):
        for i in range(8):
            base_line = '%s st, st(%d)' % (mn, i)
            base, err = asm_set(x86mnemo.asm, base_line)
            if not base:
                sh.counters['x87_base_not_assembled'] += 1
                continue
            for kind, f, line in (('intel-one-operand', x86mnemo.asm, '%s st(%d)' % (mn, i)), ('intel-st0', x86mnemo.asm, '%s st(0), st(%d)' % (mn, i)),
                                  ('att-two-operand', x86mnemo.asm_att, '%s %%st(%d), %%st' % (mn, i)), ('att-one-operand', x86mnemo.asm_att, '%s %%st(%d)' % (mn, i)),
                                  ('att-st0', x86mnemo.asm_att, '%s %%st(%d), %%st(0)' % (mn, i))):
                got, err = asm_set(f, line)
                sh.case(('x87', base_line, line), True, cls='x87-implicit-st/%s' % kind)
                if got is None:
                    # a spelling that is refused is not a second candidate set
                    sh.counters['x87_spelling_refused:%s' % kind] += 1
                    continue
                if got != base:
                    sh.violation('x87-implicit-st/%s/%s/sets-differ' % (kind, 'st0' if i == 0 else 'sti'), '%r -> %s but %r -> %s' % (base_line, sorted(c.hex() for c in base), line, sorted(c.hex() for c in got)),
                                 {'rewrite': 'intel-att' if kind.startswith('att') else 'intel', 'line': base_line, 'variant': line})


def run_shard(shard, tier, seed):
    sh = common.Shard()
    if shard[0] == 'direct':
        run_direct(sh, [p for k, p in enumerate(direct_pairs()) if k % 8 == shard[1]])
        return sh
    if shard[0] == 'x87':
        run_x87(sh)
        run_sse_imm(sh)
        run_segover(sh)
        return sh
    run_batch(sh, list(asmgen.lines(tier, seed, shard[1], NPARTS)))
    return sh


def replay(w):
    from miasmx.arch.ia32_arch import x86mnemo
    out = []
    base, err = asm_set(x86mnemo.asm, w['line'])
    f = x86mnemo.asm_att if w['rewrite'] == 'intel-att' else x86mnemo.asm
    got, err = asm_set(f, w['variant'])
    if got != base:
        out.append(('%s/replay' % w['rewrite'], '%r -> %s ; %r -> %s' % (w['line'], base, w['variant'], got if got is not None else err)))
    return out
