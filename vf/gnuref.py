"""Batch drivers for the reference tools: GNU objdump / as (binutils) and llvm-objdump (second opinion).

All temporary files live in the private TMPDIR of the calling process (under /verif/build).
"""
import os
import re
import subprocess
import tempfile

SLOT = 32
_LINE = re.compile(r'^\s*([0-9a-f]+):\t([0-9a-f ]+?)\s*(?:\t(.*))?$')


def _tmp(suffix):
    fd, path = tempfile.mkstemp(suffix=suffix)
    os.close(fd)
    return path


def _layout(blobs):
    buf = bytearray()
    for b in blobs:
        if len(b) > SLOT - 16:
            raise ValueError('blob too long for a slot: %d' % len(b))
        buf += b + b'\x90' * (SLOT - len(b))
    return bytes(buf)


def objdump(blobs, syntax='intel', extra=()):
    """Reference decode of each blob: list of (length, text). text is objdump's canonical text
    ('(bad)' when it rejects). Address-dependent operands are relative to the slot start (vma 0 per slot is
    not possible in one run, so branch targets are rewritten to 'slot+0x..')."""
    if not blobs:
        return []
    path = _tmp('.bin')
    try:
        with open(path, 'wb') as f:
            f.write(_layout(blobs))
        cmd = ['objdump', '-D', '-b', 'binary', '-m', 'i386', '-M', syntax, '--insn-width=16', '-w'] + list(extra) + [path]
        out = subprocess.run(cmd, stdout=subprocess.PIPE, stderr=subprocess.PIPE, check=True).stdout.decode('latin1')
    finally:
        os.unlink(path)
    res = [None] * len(blobs)
    for line in out.splitlines():
        m = _LINE.match(line)
        if not m:
            continue
        off = int(m.group(1), 16)
        if off % SLOT:
            continue
        k = off // SLOT
        if k >= len(blobs):
            continue
        nbytes = len(m.group(2).split())
        text = (m.group(3) or '').strip()
        res[k] = (nbytes, normalise_targets(text, off))
    for k in range(len(blobs)):
        if res[k] is None:
            res[k] = (0, '(unsynchronised)')
    return res


_TARGET = re.compile(r'\b(0x)?([0-9a-f]+)(\s*<[^>]*>)?$')


def normalise_targets(text, slot_off):
    """objdump prints absolute branch targets; make them slot relative: 'jmp    +0x5' style."""
    mn = text.split()[0] if text.split() else ''
    base = mn
    parts = text.split()
    # prefixes such as 'bnd', 'notrack', 'data16', 'addr16' may precede
    for p in parts:
        if p in ('bnd', 'notrack', 'data16', 'addr16', 'repz', 'repnz', 'lock', 'cs', 'ds', 'es', 'ss', 'fs', 'gs'):
            continue
        base = p
        break
    if base.startswith('j') or base.startswith('loop') or base.startswith('call') or base in ('xbegin',):
        if '*' in text or '[' in text or '%' in text.split()[-1] and '(' in text:
            return text
        m = re.search(r'(0x)?([0-9a-f]+)$', text)
        last = text.split()[-1]
        if m and re.fullmatch(r'(0x)?[0-9a-f]+', last) and ':' not in last:
            tgt = int(m.group(2), 16)
            if base.endswith('w') and base not in ('jcxz',) or 'data16' in parts:
                # 16-bit operand size: the target is truncated to 16 bits
                return text[:m.start()] + 'T16%+d' % ((tgt - slot_off) & 0xffff)
            return text[:m.start()] + 'T%+d' % (tgt - slot_off)
    return text


def llvm_objdump(blobs, syntax='intel'):
    """Second opinion: list of (length, text) from llvm-objdump (i386)."""
    if not blobs:
        return []
    raw = _tmp('.bin')
    elf = _tmp('.o')
    try:
        with open(raw, 'wb') as f:
            f.write(_layout(blobs))
        subprocess.run(['objcopy', '-I', 'binary', '-O', 'elf32-i386', '-B', 'i386',
                        '--rename-section', '.data=.text,alloc,load,readonly,code,contents', raw, elf], check=True,
                       stdout=subprocess.PIPE, stderr=subprocess.PIPE)
        cmd = ['llvm-objdump', '-d', elf] + (['--x86-asm-syntax=intel'] if syntax == 'intel' else [])
        out = subprocess.run(cmd, stdout=subprocess.PIPE, stderr=subprocess.PIPE, check=True).stdout.decode('latin1')
    finally:
        for p in (raw, elf):
            if os.path.exists(p):
                os.unlink(p)
    res = [None] * len(blobs)
    rx = re.compile(r'^\s*([0-9a-f]+):\s+((?:[0-9a-f]{2} )+)\s*\t(.*)$')
    for line in out.splitlines():
        m = rx.match(line)
        if not m:
            continue
        off = int(m.group(1), 16)
        if off % SLOT:
            continue
        k = off // SLOT
        if k >= len(blobs):
            continue
        res[k] = (len(m.group(2).split()), m.group(3).strip())
    for k in range(len(blobs)):
        if res[k] is None:
            res[k] = (0, '<unknown>')
    return res


def gas(lines, syntax='intel'):
    """Assemble each line separately (one `as --32` process per batch).
    Returns list of (bytes or None, message). message holds the error/warning text of that line."""
    n = len(lines)
    res = [(None, 'not run')] * n
    active = list(range(n))
    msgs = {}
    for attempt in range(4):
        if not active:
            break
        src = _tmp('.s')
        obj = _tmp('.o')
        try:
            with open(src, 'w') as f:
                if syntax == 'intel':
                    f.write('.intel_syntax noprefix\n')
                else:
                    f.write('.att_syntax\n')
                f.write('.text; .set sd_foo, 0; .set sd_bar, 0\n')       # two absolute symbols (value 0, as miasmX resolves unknown symbols) for symbol-difference operands
                # line number of entry j is 3 + 4*j + 1 (label, insn, label, lens)
                for j, i in enumerate(active):
                    f.write('LS%d:\n%s\nLE%d:\n.pushsection .lens,\"a\"; .byte LE%d-LS%d; .popsection\n' % (j, lines[i].replace('\n', ' '), j, j, j))
            p = subprocess.run(['as', '--32', '-o', obj, src], stdout=subprocess.PIPE, stderr=subprocess.PIPE)
            err = p.stderr.decode('latin1')
            bad = set()
            for el in err.splitlines():
                m = re.match(r'^[^:]*:(\d+): (Error|Warning|Fatal error): (.*)$', el)
                if not m:
                    continue
                ln = int(m.group(1))
                j = (ln - 3) // 4
                if 0 <= j < len(active):
                    i = active[j]
                    msgs.setdefault(i, []).append('%s: %s' % (m.group(2), m.group(3)))
                    if m.group(2) != 'Warning':
                        bad.add(i)
            if p.returncode == 0 and os.path.exists(obj) and os.path.getsize(obj) > 0:
                text = _section(obj, '.text')
                lens = _section(obj, '.lens')
                pos = 0
                for j, i in enumerate(active):
                    ln = lens[j]
                    res[i] = (text[pos:pos + ln], '; '.join(msgs.get(i, [])))
                    pos += ln
                active = []
                break
            if not bad:
                for i in active:
                    res[i] = (None, 'as failed: ' + err[:200])
                active = []
                break
            for i in bad:
                res[i] = (None, '; '.join(msgs.get(i, [])))
            active = [i for i in active if i not in bad]
        finally:
            for q in (src, obj):
                if os.path.exists(q):
                    os.unlink(q)
    for i in active:
        res[i] = (None, 'as: still failing after retries: ' + '; '.join(msgs.get(i, [])))
    return res


def _section(obj, name):
    out = _tmp('.sec')
    try:
        subprocess.run(['objcopy', '-O', 'binary', '-j', name, obj, out], check=True, stdout=subprocess.PIPE, stderr=subprocess.PIPE)
        with open(out, 'rb') as f:
            return f.read()
    finally:
        if os.path.exists(out):
            os.unlink(out)


SUPERFLUOUS = re.compile(r'\b(data16|addr16|data32|addr32)\b')
SEG_ALONE = re.compile(r'^(cs|ds|es|ss|fs|gs)\s')
STRING_MN = ('movs', 'cmps', 'scas', 'lods', 'stos', 'ins', 'outs')


def superfluous_prefix(text):
    """Does the reference text show a stand-alone (meaning-free) prefix token, or a rejected decode?"""
    if '(bad)' in text or not text or text.startswith('.byte') or '(unsynchronised)' in text:
        return True
    if SUPERFLUOUS.search(text):
        return True
    toks = text.split()
    if toks[0] in ('cs', 'ds', 'es', 'ss', 'fs', 'gs'):
        return True
    if toks[0] in ('repz', 'repnz', 'rep', 'repe', 'repne'):
        nxt = toks[1] if len(toks) > 1 else ''
        if not nxt.startswith(STRING_MN):
            return True
    if toks[0] == 'lock' and len(toks) > 1 and '[' not in text and '(' not in text:
        return True
    if len(toks) > 1 and toks[0] in ('bnd',):
        return True
    return False


def versions():
    v = []
    for cmd in (['as', '--version'], ['objdump', '--version'], ['llvm-objdump', '--version']):
        try:
            out = subprocess.run(cmd, stdout=subprocess.PIPE, stderr=subprocess.PIPE).stdout.decode().splitlines()
            v.append(next((l.strip() for l in out if 'version' in l.lower() or 'GNU' in l), out[0].strip() if out else '?'))
        except Exception as e:
            v.append('%s unavailable: %r' % (cmd[0], e))
    return v
