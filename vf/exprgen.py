"""Typed generator of miasmX IR expressions (real node classes from /repo)."""
import itertools

WIDTHS = (1, 8, 16, 32, 64)
AC = ('+', '*', '^', '&', '|')


def M():
    import miasmx.expression.expression as ex
    import miasmx.tools.modint as mi
    return ex, mi


def uint_cls(w):
    ex, mi = M()
    return {1: mi.uint1, 8: mi.uint8, 16: mi.uint16, 32: mi.uint32, 64: mi.uint64, 128: mi.uint128}[w]


def Int(v, w):
    ex, mi = M()
    return ex.ExprInt(uint_cls(w)(v))


def boundary(w):
    vs = {0, 1, (1 << w) - 1, 1 << (w - 1), (1 << (w - 1)) - 1, 2, w % (1 << w), (w - 1) % (1 << w)}
    if w >= 8:
        vs |= {0x7f, 0x80, 0xff, 0x10, 4, 8, 3, 31, 32, 33}
    if w >= 16:
        vs |= {0xff00, 0x100, 0x7fff, 0x8000}
    if w >= 32:
        vs |= {0xffff, 0x10000, 0xffff0000, 0x7fffffff, 0x80000000, 0xfffffffe}
    return sorted(v & ((1 << w) - 1) for v in vs)


COMPOSE_SPLITS = {
    8: [(1, 7)],
    16: [(8, 8)],
    32: [(16, 16), (8, 8, 16), (16, 8, 8), (8, 24), (1, 31)],
    64: [(32, 32), (32, 16, 16), (16, 16, 32), (8, 56)],
}


class Gen(object):
    """Random well-typed trees. All nodes have widths in WIDTHS, except that a compose slot
    may hold a slice of any width, or (lifter idiom) a constant wider than its slot."""

    def __init__(self, rng, ops=None, mem=True, cond=True, compose=True, slices=True,
                 nary_max=4, names=('a', 'b', 'c'), lifter_ops=False, segm=False):
        self.r = rng
        self.ex, self.mi = M()
        self.mem, self.cond, self.compose, self.slices = mem, cond, compose, slices
        self.nary_max = nary_max
        self.names = names
        self.ops = ops
        self.lifter_ops = lifter_ops
        self.segm = segm

    def ident(self, w, name=None):
        name = name or self.r.choice(self.names)
        return self.ex.ExprId('%s%d' % (name, w), w)

    def const(self, w):
        r = self.r
        if r.random() < 0.7:
            return Int(r.choice(boundary(w)), w)
        return Int(r.getrandbits(w), w)

    def leaf(self, w):
        r = self.r
        x = r.random()
        if x < 0.45:
            return self.ident(w)
        if x < 0.85 or not self.mem or w < 8:
            return self.const(w)
        return self.memcell(w, 0)

    def memcell(self, w, depth):
        r = self.r
        if depth <= 0 or r.random() < 0.5:
            base = self.ident(32, r.choice(('p', 'q')))
            if r.random() < 0.6:
                addr = self.ex.ExprOp('+', base, Int(r.choice((0, 1, 2, 3, 4, 8, 0xfffffffc)), 32))
            else:
                addr = base
        else:
            addr = self.gen(32, depth - 1)
        segm = None
        if self.segm and r.random() < 0.3:
            segm = self.ex.ExprId(r.choice(('ds', 'es', 'fs')), 16)
        return self.ex.ExprMem(addr, w, segm)

    def gen(self, w, depth):
        r = self.r
        ex = self.ex
        if depth <= 0:
            return self.leaf(w)
        x = r.random()
        if x < 0.12:
            return self.leaf(w)
        if x < 0.47:
            op = r.choice(self.ops or AC)
            if op in AC:
                n = r.randint(2, self.nary_max)
                return ex.ExprOp(op, *[self.gen(w, depth - 1) for _ in range(n)])
        if x < 0.55:
            return ex.ExprOp('-', self.gen(w, depth - 1))
        if x < 0.60:
            return ex.ExprOp('-', self.gen(w, depth - 1), self.gen(w, depth - 1))
        if x < 0.70 and w > 1:
            op = r.choice(('<<', '>>', 'a>>', '<<<', '>>>'))
            if r.random() < 0.7:
                cnt = Int(r.choice((0, 1, 2, w - 1, w, w + 1, 3, 7, 31, 33)), w)
            else:
                cnt = self.gen(w, depth - 1)
            return ex.ExprOp(op, self.gen(w, depth - 1), cnt)
        if x < 0.74:
            return ex.ExprOp('==', self.gen(w, depth - 1), self.gen(w, depth - 1))
        if x < 0.77 and w >= 8:
            return ex.ExprOp('parity', self.gen(w, depth - 1))
        if x < 0.84 and self.cond:
            cw = r.choice(WIDTHS)
            return ex.ExprCond(self.gen(cw, depth - 1), self.gen(w, depth - 1), self.gen(w, depth - 1))
        if x < 0.91 and self.slices:
            bigger = [v for v in WIDTHS if v > w]
            if bigger:
                w2 = r.choice(bigger)
                start = r.choice([0, w2 - w] + ([8, 16] if w2 - w >= 16 else []) + [r.randint(0, w2 - w)])
                if start + w <= w2:
                    return ex.ExprSlice(self.gen(w2, depth - 1), start, start + w)
        if x < 0.97 and self.compose and w in COMPOSE_SPLITS:
            split = r.choice(COMPOSE_SPLITS[w])
            pos = 0
            args = []
            for pw in split:
                if pw in WIDTHS:
                    a = self.gen(pw, depth - 1)
                else:
                    # non-standard part: slice of a standard-width expression, or wide constant
                    src = min(v for v in WIDTHS if v > pw)
                    if r.random() < 0.5:
                        st = r.choice((0, src - pw))
                        a = ex.ExprSlice(self.gen(src, depth - 1), st, st + pw)
                    else:
                        a = Int(r.choice(boundary(src)), src)
                args.append((a, pos, pos + pw))
                pos += pw
            return ex.ExprCompose(args)
        if self.mem and w >= 8:
            return self.memcell(w, depth - 1)
        return self.leaf(w)


def canon(e):
    """Canonical serialisation of an expression (structure only, memo attributes excluded)."""
    k = e.__class__.__name__
    if k == 'ExprInt':
        return 'I%d:%x' % (e.arg.size, int(e.arg) & ((1 << e.arg.size) - 1))
    if k == 'ExprId':
        return 'V%d:%s' % (e.size, e.name)
    if k == 'ExprMem':
        return 'M%d[%s%s]' % (e.size, canon(e.arg), '' if e.segm is None else '|' + (canon(e.segm) if hasattr(e.segm, 'visit') else repr(e.segm)))
    if k == 'ExprSlice':
        return 'S(%s,%s,%s)' % (canon(e.arg), e.start, e.stop)
    if k == 'ExprCompose':
        return 'C(' + ';'.join('%s,%s,%s' % (canon(a), s, t) for a, s, t in e.args) + ')'
    if k == 'ExprCond':
        return '?(%s,%s,%s)' % (canon(e.cond), canon(e.src1), canon(e.src2))
    if k == 'ExprOp':
        return 'O%s(%s)' % (e.op, ','.join(canon(a) for a in e.args))
    if k == 'ExprAff':
        return 'A(%s=%s)' % (canon(e.dst), canon(e.src))
    return '<%s>' % k


def fresh_copy(e):
    """Memo-free structural copy built by the harness (never uses Expr.copy/visit)."""
    ex, mi = M()
    k = e.__class__.__name__
    if k == 'ExprInt':
        return ex.ExprInt(e.arg.__class__(e.arg))
    if k == 'ExprId':
        return ex.ExprId(e.name, e.size, is_term=e.is_term, is_reg=e.is_reg)
    if k == 'ExprMem':
        segm = e.segm
        if hasattr(segm, 'visit'):
            segm = fresh_copy(segm)
        return ex.ExprMem(fresh_copy(e.arg), e.size, segm)
    if k == 'ExprSlice':
        return ex.ExprSlice(fresh_copy(e.arg), e.start, e.stop)
    if k == 'ExprCompose':
        return ex.ExprCompose([(fresh_copy(a), s, t) for a, s, t in e.args])
    if k == 'ExprCond':
        return ex.ExprCond(fresh_copy(e.cond), fresh_copy(e.src1), fresh_copy(e.src2))
    if k == 'ExprOp':
        return ex.ExprOp(e.op, *[fresh_copy(a) for a in e.args])
    if k == 'ExprAff':
        o = ex.ExprAff.__new__(ex.ExprAff)
        o.dst, o.src = fresh_copy(e.dst), fresh_copy(e.src)
        return o
    raise ValueError(k)


def count_nodes(e):
    k = e.__class__.__name__
    if k in ('ExprInt', 'ExprId'):
        return 1
    if k == 'ExprMem':
        return 1 + count_nodes(e.arg)
    if k == 'ExprSlice':
        return 1 + count_nodes(e.arg)
    if k == 'ExprCompose':
        return 1 + sum(count_nodes(a[0]) for a in e.args)
    if k == 'ExprCond':
        return 1 + count_nodes(e.cond) + count_nodes(e.src1) + count_nodes(e.src2)
    if k == 'ExprOp':
        return 1 + sum(count_nodes(a) for a in e.args)
    if k == 'ExprAff':
        return 1 + count_nodes(e.dst) + count_nodes(e.src)
    return 1


def skeleton(e, depth=3):
    """Operator skeleton with constants abstracted to classes (for mechanism keys)."""
    k = e.__class__.__name__
    if k == 'ExprInt':
        v = int(e.arg) & ((1 << e.arg.size) - 1)
        w = e.arg.size
        if v == 0:
            c = '0'
        elif v == (1 << w) - 1:
            c = 'ones'
        else:
            c = 'k'
        return 'Int%s' % c
    if k == 'ExprId':
        return 'Id'
    if depth <= 0:
        return k[4:]
    if k == 'ExprMem':
        return 'Mem(%s)' % skeleton(e.arg, depth - 1)
    if k == 'ExprSlice':
        return 'Slice(%s)' % skeleton(e.arg, depth - 1)
    if k == 'ExprCompose':
        return 'Compose(%s)' % ','.join(skeleton(a[0], depth - 1) for a in e.args)
    if k == 'ExprCond':
        return 'Cond(%s,%s,%s)' % (skeleton(e.cond, depth - 1), skeleton(e.src1, depth - 1), skeleton(e.src2, depth - 1))
    if k == 'ExprOp':
        return 'Op%s(%s)' % (e.op, ','.join(skeleton(a, depth - 1) for a in e.args))
    if k == 'ExprAff':
        return 'Aff'
    return k


def subterms(e, acc=None):
    if acc is None:
        acc = []
    acc.append(e)
    k = e.__class__.__name__
    if k in ('ExprMem', 'ExprSlice'):
        subterms(e.arg, acc)
    elif k == 'ExprCompose':
        for a in e.args:
            subterms(a[0], acc)
    elif k == 'ExprCond':
        subterms(e.cond, acc); subterms(e.src1, acc); subterms(e.src2, acc)
    elif k == 'ExprOp':
        for a in e.args:
            subterms(a, acc)
    elif k == 'ExprAff':
        subterms(e.dst, acc); subterms(e.src, acc)
    return acc
