"""Shared machinery: paths, worker pool, verdicts, known findings, evidence, replay files.

Every check module under vf/checks/ exposes

    PROPERTY = 'Cnn'
    RULE     = '...'                    # generator / non-triviality rule in words
    def shards(tier, seed) -> list      # picklable shard descriptors (deterministic structure)
    def run_shard(shard, tier, seed) -> Shard   # executed in a worker process
    def replay(witness) -> list[(key, detail)]  # re-run one recorded witness

and may expose  finalize(merged, tier, seed)  to add cross-shard verdicts.
"""
import os
import sys
import json
import time
import pickle
import hashlib
import random
import signal
import traceback
import collections
import concurrent.futures as cf

VERIF = os.path.dirname(os.path.dirname(os.path.abspath(__file__)))
REPO = os.environ.get('VERIF_REPO', '/repo')
BUILD = os.path.join(VERIF, 'build')
NPROC = int(os.environ.get('VERIF_NPROC', '16'))

EXIT_HELD, EXIT_VIOLATION, EXIT_INCONCLUSIVE = 0, 1, 2


def setup_paths():
    """Make `import miasmx` resolve to /repo's working tree and nothing else."""
    for p in (VERIF, REPO):
        if p in sys.path:
            sys.path.remove(p)
    sys.path.insert(0, VERIF)
    sys.path.insert(0, REPO)
    deps = os.path.join(VERIF, '.deps')
    if os.path.isdir(deps) and deps not in sys.path:
        sys.path.append(deps)
    sys.dont_write_bytecode = True
    # the library logs every rejected decode on stderr; the monitors do not need it
    import logging
    logging.disable(logging.CRITICAL)


def assert_repo_import():
    import miasmx
    f = os.path.realpath(miasmx.__file__)
    if not f.startswith(os.path.realpath(REPO) + os.sep):
        raise RuntimeError('miasmx imported from %s, not from %s' % (f, REPO))


def private_tmpdir(tag):
    d = os.path.join(BUILD, 'tmp', '%s.%s.%d' % (os.environ.get('VERIF_RUNTAG', 'x'), tag, os.getpid()))
    os.makedirs(d, exist_ok=True)
    os.environ['TMPDIR'] = d
    import tempfile
    tempfile.tempdir = d
    return d


def h64(obj):
    """Stable 64-bit digest of a canonical serialisation."""
    if not isinstance(obj, (bytes, bytearray)):
        obj = repr(obj).encode()
    return int.from_bytes(hashlib.blake2b(obj, digest_size=8).digest(), 'big')


def rng_for(seed, *tag):
    return random.Random(h64(('rng', seed) + tuple(tag)))


class StepBound(Exception):
    """A logical progress bound was exceeded (bounded-termination monitor)."""


class Shard(object):
    """Result of one shard of work, merged by the driver."""

    def __init__(self):
        self.evaluations = 0
        self.nontrivial = set()          # h64 of canonical case serialisations
        self.distinct_extra = 0          # cases counted while enumerating a duplicate-free grid
        self.classes = set()             # structure classes seen (strings)
        self.violations = []             # dicts: key, detail, witness
        self.samples = []                # a few actual cases
        self.counters = collections.Counter()
        self.extra = {}                  # free-form, merged by dict.update / list extend

    def case(self, canon, nontrivial=True, cls=None):
        self.evaluations += 1
        if nontrivial:
            self.nontrivial.add(h64(canon))
        if cls is not None:
            self.classes.add(cls)

    def violation(self, key, detail, witness):
        self.counters['violations_raw'] += 1
        # keep at most 3 witnesses per key per shard
        n = self.counters['vk:' + key]
        self.counters['vk:' + key] += 1
        if n < 3:
            self.violations.append({'key': key, 'detail': detail, 'witness': witness})

    def sample(self, s, limit=6):
        if len(self.samples) < limit:
            self.samples.append(s)


def _worker_init(modname, tag):
    setup_paths()
    private_tmpdir(tag)
    import faulthandler
    faulthandler.enable()
    try:
        import resource
        lim = int(os.environ.get('VERIF_WORKER_AS_GB', '3')) << 30
        resource.setrlimit(resource.RLIMIT_AS, (lim, lim))
    except Exception:
        pass


def _worker_run(modname, shard, tier, seed):
    setup_paths()
    import importlib
    mod = importlib.import_module(modname)
    try:
        res = mod.run_shard(shard, tier, seed)
        return ('ok', res)
    except BaseException:
        return ('harness_error', 'shard %r\n%s' % (shard, traceback.format_exc()))


def pool_run(modname, shards, tier, seed, nproc=None, deadline_s=3600, tag='w'):
    """Run shards in worker processes. Returns (results, errors)."""
    import multiprocessing as mp
    nproc = nproc or NPROC
    results, errors = [], []
    if not shards:
        return results, errors
    ctx = mp.get_context('fork')
    ex = cf.ProcessPoolExecutor(max_workers=min(nproc, len(shards)), mp_context=ctx,
                                initializer=_worker_init, initargs=(modname, tag))
    futs = [ex.submit(_worker_run, modname, s, tier, seed) for s in shards]
    t_end = time.time() + deadline_s
    try:
        for f in futs:
            left = t_end - time.time()
            try:
                st, res = f.result(timeout=max(left, 1))
            except cf.TimeoutError:
                errors.append('watchdog: shard pool exceeded %ds wall clock (inconclusive)' % deadline_s)
                break
            except cf.process.BrokenProcessPool as e:
                errors.append('worker process died: %r' % (e,))
                break
            if st == 'ok':
                results.append(res)
            else:
                errors.append(res)
    finally:
        procs = list(getattr(ex, '_processes', {}).values())
        ex.shutdown(wait=False, cancel_futures=True)
        if errors:
            for p in procs:
                try:
                    p.kill()
                except Exception:
                    pass
    return results, errors


def merge(results):
    m = Shard()
    for r in results:
        m.evaluations += r.evaluations
        m.nontrivial |= r.nontrivial
        m.distinct_extra += r.distinct_extra
        m.classes |= r.classes
        m.violations += r.violations
        for s in r.samples:
            if len(m.samples) < 12:
                m.samples.append(s)
        m.counters.update(r.counters)
        for k, v in r.extra.items():
            if isinstance(v, list):
                m.extra.setdefault(k, []).extend(v)
            elif isinstance(v, set):
                m.extra.setdefault(k, set()).update(v)
            elif isinstance(v, collections.Counter):
                m.extra.setdefault(k, collections.Counter()).update(v)
            elif isinstance(v, dict):
                m.extra.setdefault(k, {}).update(v)
            else:
                m.extra[k] = v
    return m


# --------------------------------------------------------------------------
# known findings

def load_known(prop):
    """Returns (known: dict key->description, fixed: list of lines)."""
    known, fixed = {}, []
    path = os.path.join(VERIF, 'known_findings.txt')
    if not os.path.exists(path):
        return known, fixed
    for line in open(path):
        line = line.rstrip('\n')
        if not line.strip() or line.startswith('#'):
            continue
        if line.startswith('fixed:'):
            if ('property=%s ' % prop) in line:
                fixed.append(line)
            continue
        # finding: property=Cnn key=<key> :: description
        if not line.startswith('finding: property=%s ' % prop):
            continue
        rest = line[len('finding: property=%s ' % prop):]
        if not rest.startswith('key='):
            continue
        rest = rest[4:]
        key, _, desc = rest.partition(' :: ')
        known[key.strip()] = desc.strip()
    return known, fixed


def jsonable(o):
    if isinstance(o, (str, int, float, bool)) or o is None:
        return o
    if isinstance(o, (bytes, bytearray)):
        return {'hex': bytes(o).hex()}
    if isinstance(o, dict):
        return {str(k): jsonable(v) for k, v in o.items()}
    if isinstance(o, (list, tuple)):
        return [jsonable(x) for x in o]
    if isinstance(o, (set, frozenset)):
        return sorted(jsonable(x) for x in o)
    return repr(o)


def write_replay(prop, key, v):
    d = os.path.join(VERIF, 'replays', prop)
    os.makedirs(d, exist_ok=True)
    name = '%016x.json' % h64(key)
    path = os.path.join(d, name)
    with open(path, 'w') as f:
        json.dump({'property': prop, 'key': key, 'detail': v['detail'],
                   'witness': jsonable(v['witness'])}, f, indent=1, sort_keys=True)
    return path


def conclude(prop, tier, seed, merged, errors, rule, assumptions, t0, min_nontrivial=2,
             extra_cov=None, inconclusive_reasons=None):
    """Print verdict lines, write evidence, return exit code."""
    known, fixed = load_known(prop)
    by_key = collections.OrderedDict()
    for v in merged.violations:
        by_key.setdefault(v['key'], []).append(v)
    new_keys, known_seen = [], []
    for key in sorted(by_key):
        if key in known:
            known_seen.append(key)
        else:
            new_keys.append(key)
    for key in known_seen:
        n = merged.counters.get('vk:' + key, len(by_key[key]))
        print('KNOWN-FINDING: property=%s %s :: %s (%d occurrences; e.g. %s)' % (
            prop, key, known[key], n, str(by_key[key][0]['detail'])[:200]))
    for key in new_keys:
        path = write_replay(prop, key, by_key[key][0])
        print('VIOLATION property=%s replay=%s' % (prop, path))
        print('  key=%s' % key)
        print('  detail=%s' % str(by_key[key][0]['detail'])[:600])
    reasons = list(inconclusive_reasons or [])
    for e in errors:
        reasons.append(e)
    n_distinct = len(merged.nontrivial) + merged.distinct_extra
    if n_distinct < min_nontrivial:
        reasons.append('only %d distinct non-trivial cases observed' % n_distinct)
    cov = {
        'evaluations': int(merged.evaluations),
        'distinct_nontrivial': n_distinct,
        'distinct_counted_by_hash_set': len(merged.nontrivial),
        'distinct_counted_in_duplicate_free_grids': int(merged.distinct_extra),
        'rule': rule,
        'samples': jsonable(merged.samples[:12]) or ['<none>'],
        'classes_seen': len(merged.classes),
        'known_findings_seen': known_seen,
        'new_violations': new_keys,
        'violations_raw': int(merged.counters.get('violations_raw', 0)),
        'counters': {k: int(v) for k, v in sorted(merged.counters.items()) if not k.startswith('vk:')},
        'inconclusive_reasons': [str(r)[:2000] for r in reasons],
    }
    if extra_cov:
        cov.update(jsonable(extra_cov))
    ev = {
        'property_id': prop, 'tier': tier, 'seed': int(seed), 'level': 'exploration',
        'coverage': cov, 'assumptions': assumptions,
        'wall_s': round(time.time() - t0, 2), 'violations': len(new_keys),
    }
    os.makedirs(os.path.join(VERIF, 'evidence'), exist_ok=True)
    with open(os.path.join(VERIF, 'evidence', prop + '.json'), 'w') as f:
        json.dump(ev, f, indent=1, sort_keys=True)
    print('%s tier=%s seed=%s evaluations=%d distinct_nontrivial=%d classes=%d known=%d new=%d wall=%.1fs' % (
        prop, tier, seed, merged.evaluations, n_distinct, len(merged.classes),
        len(known_seen), len(new_keys), time.time() - t0))
    if new_keys:
        return EXIT_VIOLATION
    if reasons:
        for r in reasons:
            print('INCONCLUSIVE: %s' % str(r)[:3000])
        return EXIT_INCONCLUSIVE
    return EXIT_HELD


def run_standard(mod, tier, seed):
    """Default driver: shards -> pool -> merge -> finalize -> conclude."""
    t0 = time.time()
    shards = mod.shards(tier, seed)
    deadline = getattr(mod, 'DEADLINE', {'quick': 1500, 'thorough': 6 * 3600})[tier]
    results, errors = pool_run(mod.__name__, shards, tier, seed, deadline_s=deadline, tag=mod.PROPERTY)
    merged = merge(results)
    reasons = []
    extra = {}
    if hasattr(mod, 'finalize'):
        r = mod.finalize(merged, tier, seed)
        if r:
            reasons += r.get('inconclusive', [])
            extra.update(r.get('coverage', {}))
    return conclude(mod.PROPERTY, tier, seed, merged, errors, mod.RULE,
                    getattr(mod, 'ASSUMPTIONS', []), t0, extra_cov=extra,
                    inconclusive_reasons=reasons)


def run_replay(mod, path):
    w = json.load(open(path))
    out = mod.replay(w['witness'])
    known, _ = load_known(mod.PROPERTY)
    bad = 0
    for key, detail in out:
        if key in known:
            print('KNOWN-FINDING: property=%s %s :: %s' % (mod.PROPERTY, key, known[key]))
        else:
            bad += 1
            print('VIOLATION property=%s replay=%s' % (mod.PROPERTY, path))
            print('  key=%s\n  detail=%s' % (key, str(detail)[:600]))
    if not out:
        print('replay: no violation reproduced')
    return EXIT_VIOLATION if bad else EXIT_HELD


class alarm_guard(object):
    """Wall-clock watchdog around one case: firing is *inconclusive*, never a violation."""

    class Fired(Exception):
        pass

    def __init__(self, seconds):
        self.seconds = seconds

    def _h(self, *a):
        raise alarm_guard.Fired()

    def __enter__(self):
        self.old = signal.signal(signal.SIGALRM, self._h)
        signal.alarm(self.seconds)

    def __exit__(self, *a):
        signal.alarm(0)
        signal.signal(signal.SIGALRM, self.old)
        return False
