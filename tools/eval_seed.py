#!/usr/bin/env python3
"""Validate a seeded property-breaking change and run the checks against it.

usage: [SEED_ROUND=2] eval_seed.py <PROP> <variant> [extra check ids...]   e.g.  eval_seed.py C05 a C13

Steps (all in scratch places; /repo is restored afterwards):
  1. in the scratch worktree /tmp/wt_<PROP>: clean tree; demo passes (exit 0); apply patch; 278 tests pass; demo fails (exit 1); revert
  2. git -C /repo apply patch; run ./check <PROP> --tier quick (and extra ids); git -C /repo checkout -- .
  3. store /verif/seeded/<PROP>-<variant>/ {patch.diff, demo.py, notes.txt, meta.json}
"""
import os
import sys
import json
import shutil
import subprocess

VERIF = os.path.dirname(os.path.dirname(os.path.abspath(__file__)))


def sh(cmd, cwd=None, timeout=3600):
    p = subprocess.run(cmd, shell=True, cwd=cwd, stdout=subprocess.PIPE, stderr=subprocess.STDOUT, timeout=timeout)
    return p.returncode, p.stdout.decode(errors='replace')


def main():
    prop, var = sys.argv[1], sys.argv[2]
    extra = sys.argv[3:]
    rnd = os.environ.get('SEED_ROUND', '1')
    wt = ('/tmp/wt_%s' if rnd == '1' else '/tmp/wt' + rnd + '_%s') % prop
    store_var = var if rnd == '1' else chr(ord(var) + 2 * (int(rnd) - 1))      # round 2: a, b are stored as c, d
    sd = os.path.join(wt, '_seed', var)
    patch = os.path.join(sd, 'patch.diff')
    demo = os.path.join(sd, 'demo.py')
    meta = {'property': prop, 'variant': var, 'steps': {}}
    for f in (patch, demo):
        if not os.path.exists(f):
            print('missing', f)
            return 2
    rc, out = sh('git status --porcelain --untracked-files=no', wt)
    if out.strip():
        sh('git checkout -- .', wt)
    rc0, out0 = sh('/venv/bin/python _seed/%s/demo.py' % var, wt, 900)
    meta['steps']['demo_without_change'] = rc0
    rc, out = sh('git apply %s' % patch, wt)
    if rc:
        print('patch does not apply in the worktree:', out)
        return 2
    rct, outt = sh('/venv/bin/python -m pytest -q -p no:cacheprovider 2>&1 | tail -1', wt, 1800)
    meta['steps']['tests_with_change'] = outt.strip()
    rc1, out1 = sh('/venv/bin/python _seed/%s/demo.py' % var, wt, 900)
    meta['steps']['demo_with_change'] = rc1
    meta['steps']['demo_output_with_change'] = out1[-600:]
    sh('git checkout -- .', wt)
    ok = rc0 == 0 and rc1 == 1 and '278 passed' in outt
    meta['valid_seed'] = ok
    print('seed %s-%s: demo without=%d with=%d tests=%s -> %s' % (prop, var, rc0, rc1, outt.strip(), 'VALID' if ok else 'INVALID'))
    if not ok:
        print(out1[-800:])
    # run the checks on /repo with the change applied
    # EVAL_IN_WT=1: the checks import the library from the scratch worktree with the change applied (VERIF_REPO), so that /repo stays
    # free for other work; the stored seeds are re-run against /repo itself by tools/recheck_seed.py / run_all_seeds.py
    target = wt if os.environ.get('EVAL_IN_WT') else '/repo'
    rc, out = sh('git status --porcelain --untracked-files=no', target)
    if out.strip():
        print('%s is not clean, refusing:' % target, out)
        return 2
    rc, out = sh('git apply %s || git apply -C1 %s' % (patch, patch), target)
    if rc:
        print('patch does not apply to %s:' % target, out)
        return 2
    meta['checks'] = {}
    try:
        for cid in [prop] + extra:
            rcc, outc = sh('VERIF_REPO=%s ./check %s --tier quick' % (target, cid), VERIF, 3600)
            keys = [l.strip()[4:] for l in outc.splitlines() if l.startswith('  key=')]
            meta['checks'][cid] = {'exit': rcc, 'new_keys': keys[:12], 'n_new_keys': len(keys)}
            print('  check %s: exit %d, %d new keys %s' % (cid, rcc, len(keys), keys[:4]))
            if rcc == 2:
                print(outc[-1500:])
    finally:
        sh('git checkout -- .', target)
    dst = os.path.join(VERIF, 'seeded', '%s-%s' % (prop, store_var))
    os.makedirs(dst, exist_ok=True)
    shutil.copy(patch, os.path.join(dst, 'patch.diff'))
    shutil.copy(demo, os.path.join(dst, 'demo.py'))
    if os.path.exists(os.path.join(sd, 'notes.txt')):
        shutil.copy(os.path.join(sd, 'notes.txt'), os.path.join(dst, 'notes.txt'))
    meta['breaks'] = prop
    meta['ran'] = ['git apply patch.diff in a scratch worktree', 'pytest (278 tests)', 'demo.py with and without the change', './check <id> --tier quick on /repo with the patch applied, then git checkout -- .']
    json.dump(meta, open(os.path.join(dst, 'meta.json'), 'w'), indent=1)
    return 0


if __name__ == '__main__':
    sys.exit(main())
