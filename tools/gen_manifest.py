#!/usr/bin/env python3
"""Regenerate /verif/MANIFEST.json from the table below and validate it against the schema."""
import json
import os
import sys

HERE = os.path.dirname(os.path.dirname(os.path.abspath(__file__)))

CHECKS = {
    'C14': dict(
        technique='runtime reference-model monitor (Python integers) over exhaustive 8-bit grids, boundary sets and seeded random operands',
        text='Every modint operation executed by the workload is compared on the spot with exact integer arithmetic '
             '(congruence mod 2^n, range, result type, reflected operators, comparisons, hash). All 2^16 operand pairs at 8 bits '
             'are enumerated for three type pairs; boundary sets for every ordered class pair; random elsewhere. Held on the '
             'executions listed in the evidence, not a proof for 16..128 bits.',
        note='trusts Python int arithmetic; shift counts <= 200 and exponents <= 70 except dedicated boundary-count cases',
        design='2/C14'),
    'C15': dict(
        technique='runtime structural-law monitor: independent serialiser/substituter + IR interpreter next to eq/hash/copy/visit/replace_expr/canonize on generated trees and single-field mutants',
        text='Every generated tree (all seven node kinds, segmented memory, assignments) is run through eq/hash/copy/visit/replace_expr/canonize '
             'while an independent structural implementation and the independent interpreter decide each law; every single-field mutation of '
             'every node must compare unequal. Held on the trees of the evidence file (depth<=4), not a proof.',
        note='trusts vf/irsem.py and vf/exprgen.canon as the meaning/structure of the IR',
        design='2/C15'),
    'C16': dict(
        technique='runtime dependency probing with an independent IR interpreter against get_r/get_w; MatchExpr against an independent matcher and substitution on instances and mutated non-instances',
        text='Each identifier and memory cell of a generated expression is perturbed on concrete valuations; a witnessed influence that is missing from '
             'get_r is a violation. MatchExpr results are substituted back and compared structurally; mutants rejected by the reference matcher must be rejected.',
        note='trusts vf/irsem.py; segment selectors are not probed (flat memory)',
        design='2/C16'),
    'C05': dict(
        technique='runtime reference-model monitor: independent IR interpreter evaluates e and expr_simp(e) on boundary/random/exhaustive-8-bit valuations; call counter on _expr_simp as bounded-termination monitor',
        text='Every simplification executed by the workload (rule-directed templates for every rewrite rule at 5 widths, random depth<=4 trees, lifted '
             'instruction semantics) is compared in width and value with its input by an independent interpreter; 8-bit two-variable templates on all '
             '65536 valuations (thorough). Termination is decided as bounded progress. Held on the executions in the evidence; not a proof over all trees.',
        note='trusts vf/irsem.py; only well-typed inputs (irsem.typecheck) are inside the quantifier; step bound 2000+400*nodes',
        design='2/C05'),
    'C13': dict(
        technique='metamorphic runtime monitor (idempotence, AC operand permutations/re-associations) plus cross-process comparison of output digests under different PYTHONHASHSEED values',
        text='Two executions of the real simplifier that must agree are compared on every generated tree (re-simplification of a memo-free copy; every '
             'permutation/re-association of AC operands); a fixed corpus of simplified expressions, renderings, lifted semantics and dump_id/dump_mem '
             'state dumps is produced in 7 (quick) / 32 (thorough) processes with different hash seeds and compared item by item.',
        note='corpus generation is hash-seed independent by construction (blake2b RNG); trees limited to depth 4',
        design='2/C13'),
    'C06': dict(
        technique='runtime reference-model monitor: independent IR interpreter evaluates eval_expr results against semantic substitution of the state bindings on concrete valuations',
        text='eval_abs(state).eval_expr(e) is executed on generated (expression, state) pairs mixing constant, symbolic and absent bindings for identifiers and '
             'same-address memory cells, on a deterministic all-constant grid over every operator the evaluator or the x86 lifter knows (arity 1..5, 4 widths), '
             'and on n-ary mixes; the result is evaluated by an independent interpreter under 6 valuations and must equal the substituted value. '
             'Held on the executions in the evidence; known findings are listed by operator.',
        note='trusts vf/irsem.py; cells are bound only at addresses that cannot overlap (aliasing is C07)',
        design='2/C06'),
}

PENDING_REASON = 'check not built yet in this round (runtime-monitoring design in DESIGN.md section 2); not claimed until it runs clean'


def main():
    props = [json.loads(l)['id'] for l in open(os.path.join(HERE, 'properties.jsonl'))]
    checks = []
    na = []
    for p in props:
        c = CHECKS.get(p)
        if c is None or not os.path.exists(os.path.join(HERE, 'vf', 'checks', p.lower() + '.py')):
            na.append({'property_id': p, 'reason': PENDING_REASON})
            continue
        checks.append({
            'property_id': p,
            'quick_cmd': './check %s --tier quick' % p,
            'thorough_cmd': './check %s --tier thorough' % p,
            'evidence_file': 'evidence/%s.json' % p,
            'replay_cmd_template': './check %s --replay {path}' % p,
            'engine': 'vf',
            'level_claimed': {'category': 'exploration', 'text': c['text'], 'design_ref': c['design']},
            'level_note': c['note'],
            'technique': c['technique'],
        })
    m = {
        'version': 1,
        'setup_cmd': 'sh setup.sh',
        'hooks': {
            'guard': 'MIASMX_VERIF',
            'enable': 'no source hooks: all monitors (wrappers, icontract contracts, sys.monitoring) are installed from the harness on /repo imported from its working tree',
            'baseline_off_cmd': 'cd /repo && /venv/bin/python -m pytest -ra -q -p no:cacheprovider --timeout=900 --continue-on-collection-errors',
            'source_commits': [],
            'add_only': True,
        },
        'engines': [{'name': 'vf', 'path': 'vf/', 'serves_properties': [c['property_id'] for c in checks],
                     'kind_free_text': 'runtime monitors: reference-model, metamorphic, contract and history monitors over generated workloads (16 worker processes)'}],
        'checks': checks,
        'not_applicable': na,
        'notes': 'Exit codes: 0 held on everything explored (KNOWN-FINDING lines for listed defects), 1 VIOLATION, 2 inconclusive. known_findings.txt is never written at run time.',
    }
    path = os.path.join(HERE, 'MANIFEST.json')
    with open(path, 'w') as f:
        json.dump(m, f, indent=1)
    try:
        sys.path.insert(0, '/opt/veriftools/pyvenv/lib/python3.11/site-packages')
        import jsonschema
        jsonschema.validate(m, json.load(open('/root/.vp/MANIFEST.schema.json')))
        print('MANIFEST.json valid: %d checks, %d not claimed' % (len(checks), len(na)))
    except ImportError:
        print('jsonschema unavailable; MANIFEST.json written (%d checks)' % len(checks))


if __name__ == '__main__':
    main()
