#!/usr/bin/env python3
"""Turn the VIOLATION blocks of a check's output into candidate 'finding:' lines (for hand review)."""
import sys, re
prop = None
key = None
for line in sys.stdin:
    m = re.match(r'^VIOLATION property=(\S+)', line)
    if m:
        prop = m.group(1); continue
    m = re.match(r'^  key=(.*)$', line)
    if m:
        key = m.group(1); continue
    m = re.match(r'^  detail=(.*)$', line)
    if m and key:
        print('finding: property=%s key=%s :: %s' % (prop, key, m.group(1)[:220].replace('\n', ' ')))
        key = None
