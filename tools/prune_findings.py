#!/usr/bin/env python3
"""List (or with --apply, delete) 'finding:' lines of one property whose key no output file reports as KNOWN-FINDING.
usage: prune_findings.py <PROP> [--apply] <check output files...>   (give thorough and several quick-seed outputs)"""
import sys, re
args = sys.argv[1:]
apply_ = '--apply' in args
args = [a for a in args if a != '--apply']
prop, files = args[0], args[1:]
seen = set()
for f in files:
    for line in open(f, errors='replace'):
        m = re.match(r'^KNOWN-FINDING: property=%s (?:key=)?(.*?)( :: .*)?$' % prop, line.rstrip('\n'))
        if m:
            seen.add(m.group(1).strip())
keep, drop = [], []
for line in open('/verif/known_findings.txt'):
    m = re.match(r'^finding: property=%s key=(.*?) :: ' % prop, line)
    if m and m.group(1).strip() not in seen:
        drop.append(line)
    else:
        keep.append(line)
print('%s: %d known keys reported, %d stale lines' % (prop, len(seen), len(drop)))
for l in drop:
    print('  stale:', l[:160].rstrip())
if apply_ and seen:
    open('/verif/known_findings.txt', 'w').writelines(keep)
