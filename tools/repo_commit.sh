#!/bin/sh
# usage: repo_commit.sh "<message>"  -- commits /repo's working tree only if the unedited baseline suite passes
cd /repo || exit 1
out=$(/venv/bin/python -m pytest -q -p no:cacheprovider 2>&1 | tail -1)
case "$out" in
  *"278 passed"*) git commit -q -am "$1" && git log --oneline | head -1 ;;
  *) echo "NOT COMMITTED: $out"; exit 1 ;;
esac
