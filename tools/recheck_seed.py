#!/usr/bin/env python3
"""Re-run checks against a stored seeded change (after a check was strengthened).

usage: recheck_seed.py <seed dir name, e.g. C13-a> <check id> [check id ...] [--tier quick|thorough]

Applies /verif/seeded/<name>/patch.diff to /repo (must be clean), runs the checks, reverts /repo, and records the
outcome in meta.json under 'rechecks' (the first evaluation stays under 'checks').
"""
import os
import sys
import json
import subprocess

VERIF = os.path.dirname(os.path.dirname(os.path.abspath(__file__)))
# RECHECK_REPO=<scratch worktree of /repo at HEAD>: apply the change there and let the checks import the library from it (VERIF_REPO),
# so that /repo stays untouched while other runs read it
TARGET = os.environ.get('RECHECK_REPO', '/repo')


def sh(cmd, cwd=None, timeout=7200):
    p = subprocess.run(cmd, shell=True, cwd=cwd, stdout=subprocess.PIPE, stderr=subprocess.STDOUT, timeout=timeout)
    return p.returncode, p.stdout.decode(errors='replace')


def main():
    args = sys.argv[1:]
    tier = 'quick'
    if '--tier' in args:
        i = args.index('--tier')
        tier = args[i + 1]
        del args[i:i + 2]
    name, checks = args[0], args[1:]
    d = os.path.join(VERIF, 'seeded', name)
    patch = os.path.join(d, 'patch.diff')
    rc, out = sh('git status --porcelain --untracked-files=no', TARGET)
    if out.strip():
        print('/repo is not clean, refusing:', out)
        return 2
    rc, out = sh('git apply %s || git apply -C1 %s' % (patch, patch), TARGET)
    if rc:
        print('patch does not apply:', out)
        return 2
    meta = json.load(open(os.path.join(d, 'meta.json')))
    meta.setdefault('rechecks', {})
    try:
        for cid in checks:
            rcc, outc = sh('VERIF_REPO=%s ./check %s --tier %s' % (TARGET, cid, tier), VERIF)
            keys = [l.strip()[4:] for l in outc.splitlines() if l.startswith('  key=')]
            meta['rechecks']['%s/%s' % (cid, tier)] = {'exit': rcc, 'new_keys': keys[:12], 'n_new_keys': len(keys)}
            print('  %s: check %s (%s): exit %d, %d new keys %s' % (name, cid, tier, rcc, len(keys), keys[:3]))
    finally:
        sh('git checkout -- .', TARGET)
    json.dump(meta, open(os.path.join(d, 'meta.json'), 'w'), indent=1)
    return 0


if __name__ == '__main__':
    sys.exit(main())
