#!/usr/bin/env python3
"""Sensitivity regression: apply every stored seeded change to /repo in turn, run the quick tier of the check(s) that are
supposed to catch it, restore /repo, and report. Writes /verif/seeded/SUMMARY.json.

usage: run_all_seeds.py [name-prefix ...]      (e.g. run_all_seeds.py C05 C13-d)

Never run while another check is running: the patches are applied to /repo itself.
"""
import os
import sys
import json
import time
import subprocess

VERIF = os.path.dirname(os.path.dirname(os.path.abspath(__file__)))
# RECHECK_REPO=<scratch worktree or snapshot of /repo at HEAD>: patches are applied there and the checks import the library from it
# (VERIF_REPO); default: /repo itself (then never run while another check is running)
TARGET = os.environ.get('RECHECK_REPO', '/repo')


def sh(cmd, cwd=None, timeout=7200):
    p = subprocess.run(cmd, shell=True, cwd=cwd, stdout=subprocess.PIPE, stderr=subprocess.STDOUT, timeout=timeout)
    return p.returncode, p.stdout.decode(errors='replace')


def main():
    sel = sys.argv[1:]
    names = sorted(d for d in os.listdir(os.path.join(VERIF, 'seeded')) if os.path.isdir(os.path.join(VERIF, 'seeded', d)) and not d.startswith('_'))
    if sel:
        names = [n for n in names if any(n.startswith(s) for s in sel)]
    rc, out = sh('git status --porcelain --untracked-files=no', TARGET)
    if rc == 0 and out.strip():
        print(TARGET + ' is not clean, refusing:', out)
        return 2
    summary = {}
    sp = os.path.join(VERIF, 'seeded', 'SUMMARY.json')
    if os.path.exists(sp) and sel:
        summary = json.load(open(sp))
    for n in names:
        d = os.path.join(VERIF, 'seeded', n)
        meta = json.load(open(os.path.join(d, 'meta.json')))
        own = n.split('-')[0]
        checks = [own]
        for k, v in meta.get('rechecks', {}).items():
            cid, tier = k.split('/')
            if tier == 'quick' and v['exit'] == 1 and cid not in checks:
                checks.append(cid)
        patch = os.path.join(d, 'patch.diff')
        rc, out = sh('git apply %s || git apply -C1 %s' % (patch, patch), TARGET)
        if rc:
            summary[n] = {'error': 'patch does not apply: ' + out[-200:]}
            print(n, 'PATCH DOES NOT APPLY')
            continue
        res = {}
        t0 = time.time()
        try:
            for cid in checks:
                rcc, outc = sh('VERIF_REPO=%s ./check %s --tier quick' % (TARGET, cid), VERIF)
                keys = [l.strip()[4:] for l in outc.splitlines() if l.startswith('  key=')]
                res[cid] = {'exit': rcc, 'n_new_keys': len(keys), 'example': keys[:2]}
                if rcc == 1 and cid == own:
                    break
        finally:
            rcr, _ = sh('git checkout -- .', TARGET)
            if rcr:
                sh('git apply -R %s || git apply -R -C1 %s' % (patch, patch), TARGET)      # TARGET is a plain copy, not a work tree
        caught = [c for c, r in res.items() if r['exit'] == 1]
        summary[n] = {'checks': res, 'caught_by': caught, 'wall_s': round(time.time() - t0, 1)}
        json.dump(summary, open(sp + '.partial', 'w'), indent=1, sort_keys=True)
        print('%-7s %s  %s' % (n, 'caught by ' + ','.join(caught) if caught else 'MISSED', {c: (r['exit'], r['n_new_keys']) for c, r in res.items()}), flush=True)
    json.dump(summary, open(sp, 'w'), indent=1, sort_keys=True)
    missed = [n for n, v in summary.items() if not v.get('caught_by')]
    print('seeds: %d, caught: %d, missed: %s' % (len(summary), len(summary) - len(missed), missed))
    return 0


if __name__ == '__main__':
    sys.exit(main())
