#!/bin/sh
# Offline setup: contracts library beside the repo's interpreter, native tracer, interpreter self-test.
set -e
cd "$(dirname "$0")"
mkdir -p build evidence replays
if [ ! -d .deps/icontract ]; then
  /venv/bin/pip install -q --no-index --find-links /opt/veriftools/wheels --target .deps icontract >/dev/null 2>&1 || echo "warning: icontract not installed"
fi
if [ -f vf/native/tracer.c ]; then
  gcc -O2 -Wall -o build/tracer vf/native/tracer.c
  gcc -m32 -nostdlib -static -o build/child vf/native/child.S
fi
/venv/bin/python vf/irsem.py
mkdir -p build/ok
